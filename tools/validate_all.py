#!/usr/bin/env python3
"""Validate MANIFEST.json and every evidence file against the schemas in /root/.vp (run with python3-vt)."""
import glob, json, sys
import jsonschema
ok = True
m = json.load(open("/verif/MANIFEST.json"))
try:
    jsonschema.validate(m, json.load(open("/root/.vp/MANIFEST.schema.json"))); print("MANIFEST ok:", len(m["checks"]), "checks,", len(m["not_applicable"]), "not applicable")
except Exception as e:
    ok = False; print("MANIFEST INVALID", str(e)[:300])
es = json.load(open("/root/.vp/EVIDENCE.schema.json"))
for c in m["checks"]:
    f = c["evidence_file"]
    try:
        e = json.load(open(f)); jsonschema.validate(e, es)
        print(" ", c["property_id"], "evidence ok", e.get("tier"), "seed", e.get("seed"), "violations", e.get("violations"))
    except Exception as ex:
        ok = False; print(" ", c["property_id"], "EVIDENCE INVALID", str(ex)[:200])
props = [json.loads(l)["id"] for l in open("/verif/properties.jsonl")]
claimed = {c["property_id"] for c in m["checks"]} | {n["property_id"] for n in m["not_applicable"]}
if set(props) != claimed:
    ok = False; print("properties not covered by checks/not_applicable:", sorted(set(props) ^ claimed))
sys.exit(0 if ok else 1)
