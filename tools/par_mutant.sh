#!/bin/bash
# usage: tools/par_mutant.sh <patch.diff> <tag> <tier> <prop> [prop...]
# Runs checks against a seeded change WITHOUT touching /repo or /verif/evidence: a scratch worktree of
# /repo HEAD with the patch applied and a scratch copy of /verif (both under /tmp/pm_<tag>, removed at
# the end); the harness imports httpcore from the worktree through PYTHONPATH.  Several of these can run
# side by side.  Output of each check: /verif/.work/pm_<tag>_<prop>.out ; one summary line per check.
PATCH=$(readlink -f "$1"); TAG=$2; TIER=$3; shift 3
D=/tmp/pm_$TAG
rm -rf $D; mkdir -p $D /verif/.work; git -C /repo worktree prune
git -C /repo worktree add --detach $D/repo HEAD >/dev/null 2>&1 || { echo "$TAG worktree failed"; exit 9; }
if [ "$PATCH" != "/dev/null" ]; then
  git -C $D/repo apply "$PATCH" || { echo "$TAG patch does not apply"; git -C /repo worktree remove --force $D/repo; rm -rf $D; exit 9; }
fi
rsync -a --exclude .git --exclude .work --exclude replays --exclude states --exclude __pycache__ /verif/ $D/verif/
for P in "$@"; do
  s=$(date +%s)
  ( cd $D/verif && PYTHONPATH=$D/repo ./check $P --tier $TIER ) > /verif/.work/pm_${TAG}_$P.out 2>&1
  rc=$?
  nv=$(grep -c '^VIOLATION' /verif/.work/pm_${TAG}_$P.out)
  first=$(grep -A1 '^VIOLATION' /verif/.work/pm_${TAG}_$P.out | sed -n 2p | cut -c1-220)
  echo "$TAG $P/$TIER exit=$rc violations=$nv $(( $(date +%s) - s ))s $first"
  if [ $rc -ne 0 ]; then mkdir -p /verif/.work/pm_replays_$TAG; cp -r $D/verif/replays/. /verif/.work/pm_replays_$TAG/ 2>/dev/null; fi
done
git -C /repo worktree remove --force $D/repo; rm -rf $D; git -C /repo worktree prune
