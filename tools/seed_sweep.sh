#!/bin/bash
# usage: tools/seed_sweep.sh "<seeds>" <props...>  -- quick tier under several seeds on the unchanged tree (evidence is restored afterwards)
SEEDS=$1; shift
cd /verif
for s in $SEEDS; do for p in "$@"; do
  out=$(VERIF_SEED=$s ./check $p --tier quick 2>&1); rc=$?
  echo "seed=$s $p exit=$rc $(echo "$out" | grep -E 'held|VIOLATED|MACHINERY' | cut -c1-120 | tail -1)"
  if [ $rc -ne 0 ]; then echo "$out" | grep -A1 "^VIOLATION" | head -6 | cut -c1-300; fi
done; done
git checkout -- evidence 2>/dev/null
