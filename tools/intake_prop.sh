#!/bin/bash
# usage: tools/intake_prop.sh <Cxx> [srcroot=/tmp/sa3_out] [L1=C] [L2=D]   -- intake candidates 1,2 as <Cxx>-<L1>, <Cxx>-<L2>
P=$1; SRC=${2:-/tmp/sa3_out}; L1=${3:-C}; L2=${4:-D}
python3 /verif/tools/intake.py $SRC/$P 1 $P $L1 > /verif/.work/intake_$P-$L1.log 2>&1
python3 /verif/tools/intake.py $SRC/$P 2 $P $L2 > /verif/.work/intake_$P-$L2.log 2>&1
