#!/bin/bash
# usage: tools/intake_prop.sh <Cxx> [also-props]   -- intake candidates 1,2 of round 3 as <Cxx>-C, <Cxx>-D
P=$1; ALSO=$2
python3 /verif/tools/intake.py /tmp/sa3_out/$P 1 $P C ${ALSO:+--also $ALSO} > /verif/.work/intake_$P-C.log 2>&1
python3 /verif/tools/intake.py /tmp/sa3_out/$P 2 $P D ${ALSO:+--also $ALSO} > /verif/.work/intake_$P-D.log 2>&1
