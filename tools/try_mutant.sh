#!/bin/bash
# usage: tools/try_mutant.sh <patch.diff> <property> [tier]   -- applies the patch to /repo, runs the check, reverts
P=$1; PROP=$2; TIER=${3:-quick}
cd /repo || exit 9
if ! git diff --quiet; then echo "/repo has local modifications; refusing"; exit 9; fi
git apply "$P" || { echo "patch does not apply"; exit 9; }
cd /verif
./check $PROP --tier $TIER > /verif/.work/mut_$PROP.out 2>&1
RC=$?
git -C /repo checkout -- .
echo "exit=$RC"
grep -E "^VIOLATION|^KNOWN-FINDING|held|VIOLATED|MACHINERY" /verif/.work/mut_$PROP.out | cut -c1-260 | head -12
