#!/usr/bin/env python3
"""Assemble DESIGN.md from tools/design/partA.md + partB.md, filling in measured numbers
(tools/design/runs.json, written by tools/run_all.sh) and the seeded-change matrix
(seeded/RESULTS.json, written by tools/mutants.py)."""
import glob, json, os, re

V = os.path.dirname(os.path.dirname(os.path.abspath(__file__)))
a = open(V + "/tools/design/partA.md").read()
b = open(V + "/tools/design/partB.md").read()
runs = json.load(open(V + "/tools/design/runs.json")) if os.path.exists(V + "/tools/design/runs.json") else {}


def ev(m):
    p = m.group(1)
    q = runs.get(p, {}).get("quick")
    t = runs.get(p, {}).get("thorough")
    f = lambda r: f"{r['evaluations']:,} ({r['wall_s']} s)" if r else "-"
    return f"{f(q)} / {f(t)}"


a = re.sub(r"@@EVAL_(C\d\d)@@", ev, a)
res = json.load(open(V + "/seeded/RESULTS.json")) if os.path.exists(V + "/seeded/RESULTS.json") else {}
rows = ["| change | what it does | own check (quick) | other checks run against it |", "|---|---|---|---|"]
missed = []
for d in sorted(glob.glob(V + "/seeded/C??-?")):
    sid = os.path.basename(d)
    meta = json.load(open(d + "/meta.json"))
    title = re.sub(r"^[A-Z0-9 /#-]*?(change )?[AB]\s*[-:]\s*", "", meta.get("title", ""), flags=re.I)[:110]
    r = res.get(sid, {})
    prop = sid[:3]
    own = [(k, v) for k, v in r.items() if k.startswith(prop + "/")]
    oth = [(k, v) for k, v in r.items() if not k.startswith(prop + "/")]
    word = lambda v: {0: "missed", 1: "DETECTED", 2: "machinery failure"}.get(v["exit"], str(v["exit"]))
    o = "; ".join(f"{k.split('/')[1]}: {word(v)}" for k, v in sorted(own)) or "not run"
    x = "; ".join(f"{k}: {word(v)}" for k, v in sorted(oth)) or ""
    if own and not any(v["exit"] == 1 for _, v in r.items()):
        missed.append(sid)
    rows.append(f"| {sid} | {title} | {o} | {x} |")
table = "\n".join(rows) + "\n\nNot detected by any check run against it: " + (", ".join(missed) or "none") + "."
a = a.replace("@@MUTANT_TABLE@@", table)
open(V + "/DESIGN.md", "w").write(a + b)
print("DESIGN.md written", len((a + b).splitlines()), "lines; missed:", missed)
