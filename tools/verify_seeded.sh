#!/bin/bash
# usage: tools/verify_seeded.sh <Cxx> <A|B>
# Confirms a seeded change in a scratch worktree of /repo (HEAD): demo passes clean, fails with the
# change, and the repository's test-suite passes with the change.  Prints one JSON line.
P=$1; V=$2
SRC=/verif/seeded/$P-$V
WT=/tmp/sw_${P}_$V
rm -rf $WT; git -C /repo worktree prune
git -C /repo worktree add --detach $WT HEAD >/dev/null 2>&1 || { echo "{\"id\":\"$P/$V\",\"error\":\"worktree\"}"; exit 1; }
PATCH=$SRC/patch.diff
cd $WT
PYTHONPATH=$WT timeout 300 /venv/bin/python $SRC/demo.py > $WT/.demo_clean.out 2>&1; RC_CLEAN=$?
APPLY=ok; git apply $PATCH 2>/dev/null || APPLY=fail
PYTHONPATH=$WT timeout 300 /venv/bin/python $SRC/demo.py > $WT/.demo_mut.out 2>&1; RC_MUT=$?
timeout 1200 /venv/bin/python -m pytest -q -p no:cacheprovider --timeout=900 -x > $WT/.suite.out 2>&1; RC_SUITE=$?
SUITE=$(tail -1 $WT/.suite.out | tr -d '"')
python3 scripts/unasync.py --check >/dev/null 2>&1; RC_UNASYNC=$?
echo "{\"id\":\"$P/$V\",\"patch\":\"$(basename $PATCH)\",\"apply\":\"$APPLY\",\"demo_clean_rc\":$RC_CLEAN,\"demo_changed_rc\":$RC_MUT,\"suite_rc\":$RC_SUITE,\"suite\":\"$SUITE\",\"unasync_rc\":$RC_UNASYNC}"
cd /; git -C /repo worktree remove --force $WT; rm -rf $WT; git -C /repo worktree prune
