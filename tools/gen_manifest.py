#!/venv/bin/python
"""Generate /verif/MANIFEST.json from the table below (one source of truth for what is
claimed).  Run after changing what a check covers."""
import json
import os

VERIF = os.path.dirname(os.path.dirname(os.path.abspath(__file__)))

POOL_NOTE = (
    "Trusted: TLC 1.8.0; the deterministic runtime (harness/vloop.py: asyncio loop with virtual time, one callback per step) "
    "and the simulated network (harness/simnet.py, peers.py) which mirror the documented contract of the real backends; "
    "anyio on asyncio; the projection through httpcore's public inspection API. Small scope: <= 6 calls, <= 12 connections "
    "per execution; model instances with 3 requests, 1-2 connections, <= 2 ticks, 1-2 faults."
)

CHECKS = {
    "C04": {
        "category": "model_checking",
        "text": "TLC proves ConnLimit and the declarative pass relation on Pool.tla (all interleavings of 3 requests at critical-section grain, small limits); every recorded execution of the real pool (default, DFS over completion orders, every fault point, every cancellation point, late arrivals) is validated by TLC against PoolTrace, which re-evaluates ConnLimit and the pass relation after every scheduling quantum.",
        "design_ref": "DESIGN.md A3, A4 (C04); plan: Part B 4, 5",
        "technique": "TLA+ model checking (TLC) + trace validation of recorded executions against the spec",
        "note": POOL_NOTE,
    },
    "C05": {
        "category": "model_checking",
        "text": "TLC proves Forgotten and NoZombie on Pool.tla (intended design) and shows each named deviation breaks them; the real pool is executed with a fault of every kind at every network operation and a cancellation (scope-style and native) before every scheduling quantum, and TLC validates every trace: request counts, connection states and the predicates is_idle/is_available/has_expired/is_closed must be exactly what the specification allows. HTTP/1.1, pooled HTTP/2 connections (shared by two requests: connection-level errors, failure while the preface is sent, late refusal) and connections through a forwarding proxy, a CONNECT tunnel and SOCKS5.",
        "design_ref": "DESIGN.md A3, A4 (C05); plan: Part B 4, 5",
        "technique": "TLA+ model checking (TLC) + exhaustive fault/cancel-point enumeration judged by trace validation",
        "note": POOL_NOTE,
    },
    "C06": {
        "category": "model_checking",
        "text": "TLC proves StreamOwned on Pool.tla; the simulated network keeps a ledger of every stream opened/closed with its owning connection, which is part of the state TLC matches after every quantum of every recorded execution (faults and cancellations at every point, pool close at the end). Round 5: a 101 upgrade scenario in the pool part, and an Establish part - TLC proves FailureClosesStream on Establish.tla and the end-of-log clause of EstablishTrace ('no stream left open after a failed establishment') judges a failure at every establishment operation of the case matrix.",
        "design_ref": "DESIGN.md A3, A4 (C06); plan: Part B 4, 5",
        "technique": "TLA+ model checking (TLC) + trace validation on the stream ledger",
        "note": POOL_NOTE,
    },
    "C07": {
        "category": "model_checking",
        "text": "TLC proves NoServiceableWaiter (safety, with ENABLED), deadlock freedom and Progress (liveness under weak fairness) on Pool.tla; recorded executions must satisfy the pass relation clause 'left queued => unserviceable' at every pass and end with every caller returned or legitimately blocked.",
        "design_ref": "DESIGN.md A3, A4 (C07); plan: Part B 4, 5",
        "technique": "TLA+ model checking incl. liveness (TLC) + trace validation",
        "note": POOL_NOTE,
    },
    "C09": {
        "category": "model_checking",
        "text": "TLC checks that the algorithmic pass implements the declarative relation (reuse first, surplus-idle bound, no stale hand-out, closes only with a reason) on Pool.tla; sequential histories over {request, clock advance, server-side close} x (max_connections, max_keepalive_connections, keepalive_expiry) are executed on the real pool with virtual time and validated by TLC. Round 5: 2-4 idle connections of different origins going stale together, then a request for each origin.",
        "design_ref": "DESIGN.md A3, A4 (C09); plan: Part B 4, 5",
        "technique": "TLA+ model checking (TLC) + trace validation of keep-alive histories",
        "note": POOL_NOTE,
    },
}

EST_NOTE = (
    "Trusted: TLC 1.8.0; the simulated network and its independent CONNECT / SOCKS5 / HTTP parsers (harness/simnet.py, peers.py); "
    "the abstraction of recorded operations into the specification's alphabet (harness/establish.py). Hosts, secrets, headers and "
    "timeout values are distinct markers, so every argument identifies its source. One request per pool; sync and async twins."
)
CHECKS.update({
    "C10": {
        "category": "model_checking",
        "text": "TLC proves Routing / TlsIffSecure / SniAlpn / ProtoChoice on Establish.tla over the whole case matrix (scheme x proxy mode x http1/http2 x ALPN outcome x sni_hostname x ...); for every case and every single-fault script the real pool is run on the simulated network and TLC replays the recorded operation log in lock step: each connect / TLS / negotiation / request operation must be exactly the one the specification performs next (endpoint, server name, ALPN offer, stream the request is written to).",
        "design_ref": "DESIGN.md A3, A4 (C10); plan: Part B 4, 5",
        "technique": "TLA+ model checking (TLC) + lock-step trace validation of operation logs",
        "note": EST_NOTE,
    },
    "C11": {
        "category": "model_checking",
        "text": "TLC proves the proxy-hop clauses (CONNECT first and only its 2xx opens the tunnel, refusal stops, secrets only on the proxy hop, caller data never in CONNECT, SOCKS names the origin and offers the configured method, forwarding uses absolute-form with proxy headers merged beneath the caller's) on Establish.tla; the real proxies are run for every case x reply script with marker strings planted in credentials, proxy headers, caller headers and body, and TLC replays the logs. Round 5: concretisation variants of every case (the caller's 'target' extension; an IPv6 literal as origin), a SOCKS proxy that picks a method which was not offered, and a Pool part: the request-target form each hop sees is read off the peers' parsers for EVERY transmission of a request (re-sends after ConnectionNotAvailable) through a forwarding proxy and a tunnel, as a clause of PoolTrace.",
        "design_ref": "DESIGN.md A3, A4 (C11); plan: Part B 4, 5",
        "technique": "TLA+ model checking (TLC) + lock-step trace validation with taint markers",
        "note": EST_NOTE,
    },
    "C16": {
        "category": "model_checking",
        "text": "Operation timeouts: TLC proves TimeoutTag on Establish.tla and replays the operation logs of every connection type with four distinct timeout values (and with none). Pool timeout: TLC proves PoolTimeoutExact on Pool.tla (deadline before / at / after a release, zero timeout) and validates executions of the real pool on the virtual clock, including the clock jumping to the deadline between any two scheduling quanta. Exchange phase: OpTimeouts.tla judges the complete operation log of calls whose responses force many reads and writes (interim 1xx, chunked, close-delimited, uploads in parts, HTTP/1.1 and HTTP/2, tiny segmentation, reuse): every operation carries the value configured for its kind, or None when nothing was configured. Round 5: uploads larger than the HTTP/2 window (the read made while waiting for credit carries the READ timeout), early-closed responses, a connect timeout shorter than the back-off pauses.",
        "design_ref": "DESIGN.md A3, A4 (C16); plan: Part B 4, 5",
        "technique": "TLA+ model checking (TLC) + trace validation (operation logs and pool executions on a virtual clock)",
        "note": EST_NOTE + " " + POOL_NOTE,
    },
    "C20": {
        "category": "model_checking",
        "text": "TLC proves RetryBound / RetryOnlyConnect / BackoffSequence / LastErrorRaised / NoRetryAfterEstablished on Establish.tla for N in 0..4; the real direct connection (TCP and TLS stage, sync and async) is run for EVERY outcome sequence of length <= N+2 over {ok, ConnectError, ConnectTimeout, other} and for failures after establishment, and TLC replays each log (connect / start_tls / sleep(d) operations) in lock step. Round 5: the same outcome scripts with a connect timeout shorter than the back-off pauses.",
        "design_ref": "DESIGN.md A3, A4 (C20); plan: Part B 4, 5",
        "technique": "TLA+ model checking (TLC) + exhaustive lock-step trace validation",
        "note": EST_NOTE,
    },
})

SEQ_NOTE = (
    "Trusted: TLC 1.8.0; the concretisation of abstract cases into bytes and the independent parsers that read what the client wrote "
    "(hand-written HTTP/1.1 parser, hyperframe+hpack for HTTP/2, SOCKS5 parser in harness/peers.py); the simulated network's segmentation. "
    "The abstract case space is enumerated (exhaustively in the thorough tier where stated); bytes inside a token class are sampled (seeded)."
)
CHECKS.update({
    "C02": {
        "category": "model_checking",
        "text": "TLC proves on Framing.tla's reference receiver that for EVERY cut set the outcome equals Expected(case) and that deliveries are prefix-safe (millions of states: cases x all cut sets x truncation points); concretised responses (HTTP/1.1: Content-Length / chunked / close-delimited / bodiless, interim 1xx, header shapes; HTTP/2: HEADERS/DATA layouts, resets) are received by the real connections under chosen segmentations (one read, one byte at a time, cuts around every structural offset) and truncations, and TLC judges every observation sequence (FramingTrace).",
        "design_ref": "DESIGN.md A3, A4 (C02); plan: Part B 4, 5",
        "technique": "TLA+ model checking of a reference receiver (TLC) + trace validation of observations from the real receivers",
        "note": SEQ_NOTE,
    },
    "C03": {
        "category": "model_checking",
        "text": "ReqWire.tla defines, for every request shape (method, target kind incl. the target extension and '*', header list shape, caller-supplied Host / Content-Length / Transfer-Encoding, body as bytes or any iterator chunking, illegal heads), what an independent parser must read from the wire on HTTP/1.1 and HTTP/2; TLC checks the default-header laws over the whole shape space and judges what the parsers read from the bytes the real pool wrote (first use and reuse of the connection, sync and async twin). Pool part: on a SHARED HTTP/2 connection the other callers' requests must still reach the server decodable when a caller fails or is cancelled at any point - PoolTrace clause m.connerr (a connection-level HTTP/2 error may appear only on a connection that was given an injected fault). Round 5: heads HTTP/2 cannot encode are part of the shape space; every transmission ATTEMPT of a request (every new stream on any connection) is judged; histories with a refused head between legal requests on one HTTP/2 connection; an H2Wire part (iterator uploads with an early response head on small windows, an illegal head among live streams, gated bodies under a held write).",
        "design_ref": "DESIGN.md A3, A4 (C03); plan: Part B 4, 5",
        "technique": "TLA+ specification as enumerator and oracle (TLC) + trace validation of parsed wire images",
        "note": SEQ_NOTE,
    },
    "C15": {
        "category": "exploration",
        "text": "Errors.tla is the taxonomy stage x cause -> allowed exception classes (TLC checks it is closed under the documented set); malformed inputs of every class at every stage (HTTP/1.1 head/body, HTTP/2 preface/frames/HPACK/:status, CONNECT replies, SOCKS5 replies), seeded mutations of valid conversations, every backend exception at every operation and invalid requests are run through the real pool, and TLC judges the class (and defining module) of what the caller saw; a hang has no action. 'Every byte sequence' is unbounded, so this is an exploration with a TLA+ oracle. Round 5: malformed answers while two callers share the HTTP/2 connection (both outcomes judged), invalid requests over HTTP/2 (known finding KF13).",
        "design_ref": "DESIGN.md A3, A4 (C15); plan: Part B 4, 5",
        "technique": "exploration (enumerated malformation classes + seeded mutation) judged by a TLA+ taxonomy with TLC",
        "note": SEQ_NOTE,
    },
    "C17": {
        "category": "model_checking",
        "text": "TLC proves Conservation / Bounded on Upgrade.tla for every tail length, lead, cut set and max_bytes sequence within the bounds; the real HTTP/1.1 connection is driven through 101 and CONNECT-2xx responses with those segmentations and read sequences (sync and async twin) and TLC replays every recorded read in lock step; afterwards the connection must not be idle and writes must have passed through unchanged. Round 5: caller variants - the empty body is read first; a second task is parked in read() while the caller writes.",
        "design_ref": "DESIGN.md A3, A4 (C17); plan: Part B 4, 5",
        "technique": "TLA+ model checking (TLC) + lock-step trace validation",
        "note": SEQ_NOTE,
    },
    "C19": {
        "category": "model_checking",
        "text": "UrlModel.tla gives RFC 3986 component splitting over URL shapes (scheme, userinfo, host kind incl. IPv6 literals, port kind, path kind incl. ';parameters' / dot segments / escapes, query, fragment, str/bytes) with the origin and Host-header laws checked by TLC over the shape space; every shape is concretised, parsed by httpcore.URL, serialised and re-parsed, sent through a pool to read the Host header off the wire, and judged by TLC (UrlTrace). Round 5: mixed-case IPv6 literals, an explicit port 0.",
        "design_ref": "DESIGN.md A3, A4 (C19); plan: Part B 4, 5",
        "technique": "TLA+ specification as enumerator and oracle (TLC) + trace validation of observations",
        "note": SEQ_NOTE,
    },
})

H2_NOTE = (
    "Trusted: TLC 1.8.0; the h2 library on the SERVER side to produce well-formed frames, hyperframe+hpack to read the client's frames; "
    "the virtual loop and simulated network. H2Conn.tla (design model with semaphore / read lock / windows) is model-checked but is bound to "
    "the code through the wire-level obligations of H2Wire.tla, not step by step. Small scope: <= 5 streams, windows of a few bytes "
    "(plus the named large transfers)."
)
CHECKS.update({
    "C01": {
        "category": "model_checking",
        "text": "HTTP/1.1: TLC proves OwnResponse / ReuseGate on Pool.tla (a deviation that idles unfinished exchanges breaks them); every recorded pool execution (responses read fully, closed early, Connection: close, HTTP/1.0, early responses, faults, cancellations, all completion orders) is validated by TLC with the observed clauses: the token echoed in status line / header / body is the caller's own, and a connection that reports idle has finished its exchange in both directions on the simulated peer. HTTP/2: wire logs of concurrent streams (also two connections at once) are replayed against H2Wire, whose RetOk guard demands each caller's answer to be its own stream's.",
        "design_ref": "DESIGN.md A3, A4 (C01); plan: Part B 4, 5",
        "technique": "TLA+ model checking (TLC) + trace validation (pool executions and HTTP/2 wire logs)",
        "note": POOL_NOTE + " " + H2_NOTE,
    },
    "C12": {
        "category": "model_checking",
        "text": "TLC proves PermitAccounting, StreamCap, deadlock freedom and NoWedge (liveness under a fair server) on H2Conn.tla for all interleavings of 3 requests with SETTINGS changes and resets, and shows the code's deviation (SETTINGS lowered: the reader blocks on the semaphore inside the read lock) deadlocks; the real pool talks to a driver-controlled HTTP/2 server under DFS / random orders of client operations and server frames, and TLC replays each wire log against H2Wire (StreamCap on every new stream, Isolation at every return, NoWedge at the end). Round 5: the pool at its connection limit with a request for another origin queued while a request waits for a stream slot.",
        "design_ref": "DESIGN.md A3, A4 (C12); plan: Part B 4, 5",
        "technique": "TLA+ model checking incl. liveness (TLC) + trace validation of wire logs",
        "note": H2_NOTE,
    },
    "C13": {
        "category": "model_checking",
        "text": "TLC proves FlowSafe / UploadExact and upload completion (liveness) on H2Conn.tla for one and two uploads sharing the connection window and shows the 're-read after the lock' deviation deadlocks; uploads of 0, 1, 12, 65535, 65536 and 3x65535 bytes against server-chosen tiny / default windows, INITIAL_WINDOW_SIZE changes, stream-only / connection-only grants of various sizes and a long-poll neighbour are run on the real client and each DATA frame is checked by TLC against the windows as the server accounts them (H2Wire.CData); large downloads check that credit is returned. Round 5: gated iterator uploads with a SETTINGS shrink between two chunks; 18 abandoned 1 MiB responses followed by a download (known finding KF14).",
        "design_ref": "DESIGN.md A3, A4 (C13); plan: Part B 4, 5",
        "technique": "TLA+ model checking incl. liveness (TLC) + trace validation of wire logs",
        "note": H2_NOTE,
    },
    "C14": {
        "category": "model_checking",
        "text": "TLC proves AtMostOnce and RetryOnlyUnsent on Pool.tla; recorded pool executions (every fault position, retries settings, double assignment re-queues) are validated with the observed clause 'request head seen on at most one stream' at every return; HTTP/2: GOAWAY with every last-stream-id relative to 3 concurrent streams (and a gated upload) under DFS / random orders is replayed against H2Wire: no new stream after GOAWAY, only a refused stream is ever re-sent.",
        "design_ref": "DESIGN.md A3, A4 (C14); plan: Part B 4, 5",
        "technique": "TLA+ model checking (TLC) + trace validation (pool executions and HTTP/2 wire logs)",
        "note": POOL_NOTE + " " + H2_NOTE,
    },
})

CHECKS.update({
    "C18": {
        "category": "model_checking",
        "text": "SyncAsync.tla walks PAIRS of event logs in lock step: every single-caller scenario of the corpus (sequential pool histories with a fault at every operation, scripted nested histories with virtual time and the response-object protocol, the Establish case matrix with failure scripts, request shapes on the wire) is run through the async classes and through the sync classes and TLC requires the same operations with the same arguments, the same bytes (length + crc32), the same results and exception classes and the same pool / connection state strings at every step. Side check outside the family, reported under its own key: httpcore/_sync is compared over the full length of every file with a fresh run of the repository's own unasync rules. Round 5: the library's own hand-written mock back ends (segments around the read size), HTTP/2 / upgrade / proxy histories.",
        "design_ref": "DESIGN.md A3, A4 (C18); plan: Part B 4, 5",
        "technique": "TLA+ lock-step trace validation of sync/async log pairs (TLC) + translation diff side check",
        "note": "Trusted: TLC 1.8.0; the two drivers present the same simulated network to both variants; crc32 digests stand for byte strings. Single-caller scenarios only.",
    },
})

CHECKS.update({
    "C08": {
        "category": "model_checking",
        "text": "Pool.tla in THREAD mode (cfg.threads: enqueue, pass, closing of evicted connections, the refusal at the ACTIVE gate and the re-queue are separate steps; tasks interleave at every lock and network operation) is model-checked by TLC for every pool invariant plus NoCollateral and, under fairness, Progress (no lost wake-up). The real httpcore.ConnectionPool is then run by real threads under a controlled baton-passing scheduler (httpcore._synchronization.threading replaced at run time by scheduler-aware Lock/Event/Semaphore; pre-emption at every lock acquire/release, Event.wait and simulated network operation) over serial, round-robin, pre-emption-bounded (all single, sampled pairs), PCT and random schedules; TLC validates every execution against PoolTrace in thread mode. Schedules that additionally pre-empt at random SOURCE LINES of httpcore/_sync/*.py are judged by the monitor ThreadCoarse.tla (own response, at most one stream, limit, no failing operation, no internal error, no hang, pool at rest). Round 5: every single line-level pre-emption of a warm two-thread scenario is enumerated (970 executions); threads multiplexed on one HTTP/2 connection are judged by the ThreadCoarse monitor (known finding KF12: duplicate stream id).",
        "design_ref": "DESIGN.md A3, A4 (C08); plan: Part B 4, 5",
        "technique": "TLA+ model checking (TLC, thread-grain Pool) + TLC trace validation of executions of the real sync pool under a controlled thread scheduler",
        "note": "Trusted: TLC 1.8.0, harness/tsched.py (scheduler, fake primitives), simnet. 2-4 threads, one request each, HTTP/1.1 origins; line-grain schedules are sampled, not enumerated, and judged only by the coarse monitor. KF09 (evicted connection activated) is a listed finding.",
    },
})

NOT_YET = {
    "C01": "not claimed yet: Pool/H2Conn trace clauses for response ownership are under construction",
    "C02": "not claimed yet: Framing module under construction",
    "C03": "not claimed yet: ReqWire module under construction",
    "C08": "not claimed yet: thread-grain pool model and controlled thread scheduler under construction",
    "C10": "not claimed yet: Establish module under construction",
    "C11": "not claimed yet: Establish module under construction",
    "C12": "not claimed yet: H2Conn module under construction",
    "C13": "not claimed yet: H2Conn module under construction",
    "C14": "not claimed yet: Pool/H2Conn at-most-once clauses under construction",
    "C15": "not claimed yet: Errors module under construction",
    "C16": "not claimed yet: timeout clauses under construction",
    "C17": "not claimed yet: Upgrade module under construction",
    "C18": "not claimed yet: SyncAsync module under construction",
    "C19": "not claimed yet: UrlModel module under construction",
    "C20": "not claimed yet: Establish (retry) module under construction",
}


def main():
    checks = []
    for pid, c in sorted(CHECKS.items()):
        checks.append(
            {
                "property_id": pid,
                "quick_cmd": f"./check {pid} --tier quick",
                "thorough_cmd": f"./check {pid} --tier thorough",
                "evidence_file": f"/verif/evidence/{pid}.json",
                "replay_cmd_template": f"./check {pid} --replay {{path}}",
                "engine": "tlc",
                "level_claimed": {"category": c["category"], "text": c["text"], "design_ref": c["design_ref"]},
                "level_note": c["note"],
                "technique": c["technique"],
            }
        )
    m = {
        "version": 1,
        "setup_cmd": "/venv/bin/python -m harness.setup",
        "hooks": {
            "guard": "HTTPCORE_VERIF",
            "enable": "no source hooks: the checks import httpcore from /repo's working tree and attach at run time (simulated network backend passed as network_backend=, module attribute `time` replaced by a virtual clock); the guard name is reserved",
            "baseline_off_cmd": "cd /repo && /venv/bin/python -m pytest -ra -q -p no:cacheprovider --timeout=900 --continue-on-collection-errors",
            "source_commits": [],
            "add_only": True,
        },
        "engines": [
            {"name": "tlc", "path": "/opt/veriftools/tla/tla2tools.jar", "serves_properties": sorted(CHECKS), "kind_free_text": "TLC 1.8.0 explicit-state model checker: model checking of spec/*.tla and batch trace validation"},
            {"name": "vloop+simnet", "path": "/verif/harness", "serves_properties": sorted(CHECKS), "kind_free_text": "deterministic virtual-time asyncio loop, simulated reactive network, recorder projecting through the public API"},
        ],
        "checks": checks,
        "not_applicable": [{"property_id": k, "reason": v} for k, v in sorted(NOT_YET.items()) if k not in CHECKS],
        "notes": "Every property is decided by TLC: (1) model checking of the TLA+ module with Deviations={} and (2) TLC's verdict on traces recorded from the real code. Exit 2 = machinery failure (never a verdict). Known findings: KNOWN_FINDINGS.json.",
    }
    with open(os.path.join(VERIF, "MANIFEST.json"), "w") as f:
        json.dump(m, f, indent=1)
    print("MANIFEST.json written:", len(checks), "checks,", len(m["not_applicable"]), "not claimed")


if __name__ == "__main__":
    main()
