#!/bin/bash
# polls /verif/.work/q for job files (each holds one shell command line), runs them one at a time
while true; do
  j=$(ls /verif/.work/q 2>/dev/null | head -1)
  if [ -z "$j" ]; then sleep 5; continue; fi
  if mv /verif/.work/q/$j /verif/.work/qdone/$j.$$ 2>/dev/null; then
    bash /verif/.work/qdone/$j.$$ >> /verif/.work/qworker.$$.log 2>&1
  fi
done
