#!/usr/bin/env python3
"""usage: tools/intake.py <srcdir> <N> <Cxx> <letter> [--also C01,C12] [--tier quick]
Takes candidate N (patchN.diff, demoN.py, notesN.md) written by a sub-agent in <srcdir>, confirms it in a
scratch worktree of /repo HEAD (demo exits 0 on the clean tree and non-zero with the change; the
repository's suite passes with the change; unasync --check), and if confirmed stores it as
/verif/seeded/<Cxx>-<letter>/ and runs the property's check against it in isolation
(tools/par_mutant.sh).  Nothing in /repo's working tree is touched."""
import argparse, json, os, re, shutil, subprocess, sys

V = "/verif"
ap = argparse.ArgumentParser()
ap.add_argument("src"); ap.add_argument("n"); ap.add_argument("prop"); ap.add_argument("letter")
ap.add_argument("--also", default=""); ap.add_argument("--tier", default="quick"); ap.add_argument("--noverify", action="store_true")
a = ap.parse_args()
sid = f"{a.prop}-{a.letter}"
patch = f"{a.src}/patch{a.n}.diff"; demo = f"{a.src}/demo{a.n}.py"; notes = f"{a.src}/notes{a.n}.md"
for f in (patch, demo):
    if not os.path.exists(f):
        sys.exit(f"missing {f}")
wt = f"/tmp/iw_{sid}"
sh = lambda c, **k: subprocess.run(c, shell=True, capture_output=True, text=True, **k)
conf = {}
if not a.noverify:
    sh(f"rm -rf {wt}; git -C /repo worktree prune; git -C /repo worktree add --detach {wt} HEAD")
    try:
        env = dict(os.environ, PYTHONPATH=wt)
        r0 = subprocess.run(["/venv/bin/python", demo], cwd=wt, env=env, capture_output=True, text=True, timeout=300)
        ap_ = sh(f"git -C {wt} apply {patch}")
        if ap_.returncode != 0:
            print(sid, "PATCH DOES NOT APPLY", ap_.stderr[:300]); sys.exit(3)
        r1 = subprocess.run(["/venv/bin/python", demo], cwd=wt, env=env, capture_output=True, text=True, timeout=300)
        su = sh(f"cd {wt} && timeout 1200 /venv/bin/python -m pytest -q -p no:cacheprovider --timeout=900 -x 2>&1 | tail -1")
        un = sh(f"cd {wt} && python3 scripts/unasync.py --check")
        conf = {"how": "tools/intake.py in a scratch worktree of /repo HEAD (removed afterwards)", "repo_head": sh("git -C /repo rev-parse --short HEAD").stdout.strip(),
                "demo_on_unchanged_tree_rc": r0.returncode, "demo_with_change_rc": r1.returncode,
                "demo_with_change_says": (r1.stdout + r1.stderr).strip().splitlines()[-3:], "repo_test_suite_with_change": su.stdout.strip(), "unasync_check_rc": un.returncode}
    finally:
        sh(f"git -C /repo worktree remove --force {wt}; rm -rf {wt}; git -C /repo worktree prune")
    print(sid, json.dumps(conf))
    ok = conf["demo_on_unchanged_tree_rc"] == 0 and conf["demo_with_change_rc"] != 0 and re.search(r"214 passed", conf["repo_test_suite_with_change"]) and " failed" not in conf["repo_test_suite_with_change"] and "error" not in conf["repo_test_suite_with_change"]
    if not ok:
        print(sid, "NOT CONFIRMED - not kept"); sys.exit(4)
d = f"{V}/seeded/{sid}"
os.makedirs(d, exist_ok=True)
shutil.copy(patch, d + "/patch.diff"); shutil.copy(demo, d + "/demo.py")
if os.path.exists(notes): shutil.copy(notes, d + "/notes.md")
title = ""
if os.path.exists(notes):
    for ln in open(notes):
        ln = ln.strip().lstrip("# ").strip()
        if ln: title = ln; break
mf = d + "/meta.json"
meta = json.load(open(mf)) if os.path.exists(mf) else {}
meta.update({"id": sid, "property": a.prop, "title": title[:200], "needs_to_manifest": "see notes.md",
             "author": "fresh sub-agent given only the property text and a scratch worktree of /repo (later round)", "rebased": False})
if conf: meta["confirmed"] = conf
json.dump(meta, open(mf, "w"), indent=1)
props = [a.prop] + [p for p in a.also.split(",") if p and p != a.prop]
r = subprocess.run([V + "/tools/par_mutant.sh", d + "/patch.diff", sid, a.tier] + props, capture_output=True, text=True)
print(r.stdout.strip())
rf = V + "/seeded/RESULTS.json"
import fcntl
lk = open(V + "/.work/results.lock", "w"); fcntl.flock(lk, fcntl.LOCK_EX)
res = json.load(open(rf)) if os.path.exists(rf) else {}
for ln in r.stdout.splitlines():
    m = re.match(r"(\S+) (C\d\d)/(\w+) exit=(\d+) violations=(\d+) (\d+)s ?(.*)", ln)
    if m:
        res.setdefault(sid, {})[f"{m.group(2)}/{m.group(3)}"] = {"exit": int(m.group(4)), "violations": int(m.group(5)), "first": m.group(7).strip(), "machinery": [], "wall_s": int(m.group(6))}
json.dump(res, open(rf, "w"), indent=1, sort_keys=True)
meta["checks_run_against_it"] = res.get(sid, {})
meta["detected_by"] = sorted(k for k, v in res.get(sid, {}).items() if v["exit"] == 1)
json.dump(meta, open(mf, "w"), indent=1)
