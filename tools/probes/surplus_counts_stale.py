"""Probe (stand-alone, public API only): with max_keepalive_connections=1 the clean-up pass closes a
HEALTHY idle connection as 'surplus' because a STALE idle connection (server closed / expired), which
the same pass removes a moment later, is still counted - but only when the healthy one comes first in
the pool's list.  Exit 1 if that happens."""
import sys
import httpcore


class Stream(httpcore.NetworkStream):
    def __init__(self, log):
        self.log = log; self.buf = b""; self.readable = False; self.closed = False
        log.append(self)
    def write(self, b, timeout=None):
        if b"\r\n\r\n" in b: self.buf += b"HTTP/1.1 200 OK\r\nContent-Length: 2\r\n\r\nok"
    def read(self, n, timeout=None):
        out, self.buf = self.buf[:n], self.buf[n:]; return out
    def close(self): self.closed = True
    def get_extra_info(self, k): return self.readable if k == "is_readable" else None


class Backend(httpcore.NetworkBackend):
    def __init__(self): self.streams = []
    def connect_tcp(self, host, port, **kw): return Stream(self.streams)


be = Backend()
pool = httpcore.ConnectionPool(network_backend=be, max_connections=2, max_keepalive_connections=1)
with pool.stream("GET", "http://b.example/") as r_b:      # connection 1 (b), response held open
    pool.request("GET", "http://a.example/")               # connection 2 (a), now idle
    be.streams[1].readable = True                          # the server closes a's idle socket
    r_b.read()
# closing b's response ran the clean-up pass with [b: turning idle, a: idle + stale]
left = [repr(c) for c in pool.connections]
pool.request("GET", "http://b.example/again")
print("connections after the pass:", left, "| sockets opened in total:", len(be.streams))
if len(be.streams) != 2:
    print("DEFECT: the healthy idle connection to b.example was closed as surplus; the sequential request opened a new one")
    sys.exit(1)
