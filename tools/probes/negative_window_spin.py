"""Probe (stand-alone): the server lowers SETTINGS_INITIAL_WINDOW_SIZE in the middle of an upload so that the
stream's send window becomes NEGATIVE (RFC 9113 6.9.2 allows that).  The flow-control wait only waits while
the window is exactly 0, so a negative window is returned as 'allowed': the client spins sending empty DATA
frames (or slices the body with a negative size).  Exit 1 on the spin / a failed or wrong upload."""
import sys
import h2.config, h2.connection, h2.events, h2.exceptions, h2.settings
import httpcore

SC = h2.settings.SettingCodes
BODY = bytes(range(20))


class Stream(httpcore.NetworkStream):
    def __init__(self):
        self.srv = h2.connection.H2Connection(h2.config.H2Configuration(client_side=False))
        self.out = b""; self.got = b""; self.started = False; self.lowered = False; self.empty = 0; self.ended = set()
    def write(self, buffer, timeout=None):
        if not self.started:
            self.started = True; self.srv.initiate_connection(); self.srv.update_settings({SC.INITIAL_WINDOW_SIZE: 12})
        try:
            events = self.srv.receive_data(buffer)
        except h2.exceptions.FlowControlError as e:
            raise SystemExit("DEFECT: the client sent a DATA frame while its send window was negative (server: %s); %d of %d body bytes sent" % (e, len(self.got), len(BODY)))
        for ev in events:
            if isinstance(ev, h2.events.DataReceived):
                self.got += ev.data
                self.empty = self.empty + 1 if not ev.data else 0
                if self.empty > 200:
                    raise SystemExit("DEFECT: the client spins: 200 empty DATA frames in a row, %d of %d body bytes sent" % (len(self.got), len(BODY)))
                if len(self.got) == 12 and not self.lowered:
                    self.lowered = True
                    self.srv.update_settings({SC.INITIAL_WINDOW_SIZE: 2})      # window: 0 -> -10
            elif isinstance(ev, h2.events.StreamEnded):
                self.srv.send_headers(ev.stream_id, [(":status", "200")], end_stream=True); self.ended.add(ev.stream_id)
        self.out += self.srv.data_to_send()
    def read(self, max_bytes, timeout=None):
        if not self.out and self.lowered and 3 not in self.ended:
            # the server consumes what it received and reopens the windows
            self.srv.increment_flow_control_window(30, 3); self.srv.increment_flow_control_window(30)
            self.out += self.srv.data_to_send()
        out, self.out = self.out[:max_bytes], self.out[max_bytes:]
        return out
    def close(self): pass
    def get_extra_info(self, k): return None


class Backend(httpcore.NetworkBackend):
    def connect_tcp(self, host, port, **kw):
        self.s = Stream(); return self.s


be = Backend()
pool = httpcore.ConnectionPool(network_backend=be, http1=False, http2=True)
pool.request("GET", "http://a.test/warm")                       # the client now honours window 12
def body():
    yield BODY[:12]; yield BODY[12:]
try:
    r = pool.request("POST", "http://a.test/up", headers=[(b"content-length", b"20")], content=body())
except Exception as e:
    print("DEFECT: upload failed:", type(e).__name__, e); sys.exit(1)
ok = r.status == 200 and be.s.got == BODY
print("status", r.status, "server received", len(be.s.got), "bytes", "OK" if ok else "WRONG")
sys.exit(0 if ok else 1)
