"""Probe (stand-alone, public API): SOCKS5 + http2=True + https origin.  Two requests are assigned to one
connecting Socks5Connection; the first one's SOCKS negotiation is refused (the pool drops the connection),
the second - waiting at the connect lock - establishes the dropped object again: a socket the pool does not
count and never closes.  Exit 1 if a stream is still open after pool.aclose()."""
import sys
import anyio
import httpcore

H11 = b"HTTP/1.1 200 OK\r\nContent-Length: 2\r\n\r\nok"
OK = [b"\x05\x00", b"\x05\x00\x00\x01\xff\x00\x00\x01\x00\x50", H11]
REFUSED = [b"\x05\x00", b"\x05\x05\x00\x01\x00\x00\x00\x00\x00\x00"]


class SSLObj:
    def selected_alpn_protocol(self): return "http/1.1"


class Stream(httpcore.AsyncNetworkStream):
    def __init__(self, be, script): self.closed = False; self.script = list(script); be.streams.append(self)
    async def read(self, max_bytes, timeout=None):
        await anyio.sleep(0); return self.script.pop(0) if self.script else b""
    async def write(self, buffer, timeout=None): await anyio.sleep(0)
    async def aclose(self): self.closed = True
    async def start_tls(self, ssl_context, server_hostname=None, timeout=None): await anyio.sleep(0); return self
    def get_extra_info(self, k): return SSLObj() if k == "ssl_object" else None


class Backend(httpcore.AsyncNetworkBackend):
    def __init__(self): self.streams = []; self.scripts = [REFUSED, OK, OK]
    async def connect_tcp(self, host, port, **kw):
        await anyio.sleep(0); return Stream(self, self.scripts[len(self.streams)])
    async def sleep(self, s): await anyio.sleep(0)


class Ctx:
    def set_alpn_protocols(self, p): pass


async def main():
    be = Backend(); out = {}
    pool = httpcore.AsyncConnectionPool(proxy=httpcore.Proxy("socks5://proxy.test:1080"), http2=True, max_connections=1, network_backend=be, ssl_context=Ctx())
    async def go(n):
        try: out[n] = (await pool.request("GET", "https://a.test/" + n)).status
        except Exception as e: out[n] = type(e).__name__
    async with anyio.create_task_group() as tg:
        tg.start_soon(go, "A"); tg.start_soon(go, "B")
    await pool.aclose()
    left = sum(1 for s in be.streams if not s.closed)
    print(out, "streams opened:", len(be.streams), "open after pool close:", left)
    return left

if anyio.run(main):
    print("DEFECT: a stream opened on a connection object the pool had dropped is never closed"); sys.exit(1)
