import sys
import os; sys.path.insert(0, os.path.dirname(os.path.dirname(os.path.dirname(os.path.abspath(__file__)))))
import httpcore
from harness.peers import H2ServerPeer
from harness.simnet import SimBackend, SimNet, World
peers=[]
def factory(rec):
    p=H2ServerPeer(); peers.append(p); return p
net=SimNet(World(default=factory))
pool=httpcore.ConnectionPool(network_backend=SimBackend(net), max_connections=1, http1=False, http2=True)
def go(h):
    try:
        r=pool.request("GET","http://origin.test/p",headers=h)
        return r.status
    except Exception as e:
        return type(e).__name__+": "+str(e)[:100]
print(go([(b"Host", b"first.test"), (b"x-a",b"1")]))
print(go([(b"x-b",b"2")]))
print(go([(b"x-c",b"3"),(b"TE",b"gzip")]))
print(go([(b"x-b",b"2")]))
for p in peers:
  for sid,hs in sorted(p.dec.headers.items()): print(sid,hs)
print(len(peers))
