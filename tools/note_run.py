#!/usr/bin/env python3
"""usage: tools/note_run.py Cxx tier rc wall   -- remember the numbers of a run on the unchanged tree (for DESIGN.md)"""
import json, os, sys
V = os.path.dirname(os.path.dirname(os.path.abspath(__file__)))
p, tier, rc, wall = sys.argv[1], sys.argv[2], int(sys.argv[3]), int(sys.argv[4])
f = V + "/tools/design/runs.json"
runs = json.load(open(f)) if os.path.exists(f) else {}
e = json.load(open(f"{V}/evidence/{p}.json"))
c = e.get("coverage", {})
runs.setdefault(p, {})[tier] = {"exit": rc, "wall_s": wall, "evaluations": c.get("evaluations", 0), "states": c.get("states", 0),
                                "distinct": c.get("distinct_traces", c.get("distinct", 0)), "known": sorted(k.get("id", "") if isinstance(k, dict) else str(k) for k in e.get("known_findings", []))}
json.dump(runs, open(f, "w"), indent=1, sort_keys=True)
