#!/usr/bin/env python3
"""usage: tools/sa_prompt.py <round tag, e.g. sa5> <Cxx> [<Cxx> ...]
Prepares what a fresh sub-agent gets for a seeded-change round: a scratch worktree of /repo HEAD
(/tmp/<tag>_<Cxx>), an output directory (/tmp/<tag>_out/<Cxx>) and a prompt file
(/tmp/<tag>_prompt_<Cxx>.txt) that contains ONLY the property's text and the titles of the earlier seeded
changes of that property (ideas to avoid) - nothing else from /verif.  Prints the prompt paths."""
import json, os, subprocess, sys, glob

tag = sys.argv[1]
props = {json.loads(l)["id"]: json.loads(l) for l in open("/verif/properties.jsonl")}
for pid in sys.argv[2:]:
    p = props[pid]
    wt = f"/tmp/{tag}_{pid}"; out = f"/tmp/{tag}_out/{pid}"
    os.makedirs(out, exist_ok=True)
    if not os.path.exists(wt):
        subprocess.run(f"git -C /repo worktree prune; git -C /repo worktree add --detach {wt} HEAD", shell=True, capture_output=True)
    avoid = []
    for mf in sorted(glob.glob(f"/verif/seeded/{pid}-*/meta.json")):
        t = json.load(open(mf)).get("title", "")
        if t: avoid.append(t)
    txt = f"""You are helping to evaluate a verification framework for the Python library encode/httpcore (a low-level HTTP/1.1 and HTTP/2 client: connection pool, per-connection state machines, proxy / SOCKS tunnelling, sync and async back ends over h11 / h2).

You have your own scratch git worktree of the library at {wt} (python interpreter: /venv/bin/python; run programs with PYTHONPATH={wt} so that `import httpcore` takes YOUR copy; the test suite runs with `cd {wt} && PYTHONPATH={wt} /venv/bin/python -m pytest -q -p no:cacheprovider`). Work ONLY inside {wt} and {out}. Do not read or touch /repo, /verif or any other directory; there is no network.

Here is a semantic property the library is meant to satisfy:

  id: {p['id']}
  title: {p['title']}
  statement: {p['statement']}
  for: {p['quantifier']['text']}
  why the existing tests cannot settle it: {p['why_tests_cant']}
  code it is anchored in: {', '.join(p['anchors'].get('files', []))}

YOUR TASK: produce TWO independent, realistic changes to the library (each a plausible refactoring, optimisation, "clean-up" or well-meant bug fix a contributor could submit) such that with the change
  (a) everything still imports, and the library's existing test suite still passes completely (214 passed, 6 xpassed);
  (b) `python3 scripts/unasync.py --check` still passes (the files under httpcore/_sync are generated from httpcore/_async: make the same change in both trees);
  (c) the property above is BROKEN - but only under something specific: a particular interleaving of concurrent callers, a failure or cancellation at one particular point, a multi-step sequence of operations, an unusual (but legal) input or peer behaviour, or two cooperating sites that each look fine alone.  NOT a change that ordinary use (one plain request) would expose at once.
The two changes must differ in kind (different files or mechanisms).

Ideas already used in earlier rounds for this property - do NOT repeat these, find something different:
{chr(10).join('  - ' + a for a in avoid) if avoid else '  (none)'}

For each change N in (1, 2) write into {out}:
  patchN.diff  - `git diff` of the change against the worktree's HEAD (must apply with `git apply` on a clean checkout);
  demoN.py     - a self-contained program (standard library + httpcore + its installed dependencies anyio / trio / h11 / h2 only; public API plus your own in-memory network back end / mock streams; no real sockets) that exits 0 on the UNCHANGED library and exits non-zero, printing what went wrong, WITH the change;
  notesN.md    - first line: a one-line title of the change; then: what it does, why the tests still pass, exactly what is needed for it to manifest.
Confirm all of it yourself: run the demo on the clean worktree (exit 0), apply the change, run the demo (exit != 0), run the whole test suite and the unasync check with the change.  Leave the worktree CLEAN at the end (`git -C {wt} checkout -- . && git -C {wt} status --short` shows nothing).
Reply with a short summary: the two titles, what each needs to manifest, and the results of your confirmations.  If you happen to notice a genuine defect of the unchanged library while working, mention it separately at the end."""
    pf = f"/tmp/{tag}_prompt_{pid}.txt"
    open(pf, "w").write(txt)
    print(pf)
