#!/bin/bash
# usage: tools/run_all.sh [tier] [props...]   -- runs the registered checks one after the other on /repo as it is
TIER=${1:-quick}; shift
PROPS=${@:-C01 C02 C03 C04 C05 C06 C07 C08 C09 C10 C11 C12 C13 C14 C15 C16 C17 C18 C19 C20}
cd /verif; mkdir -p .work
for p in $PROPS; do
  s=$(date +%s)
  ./check $p --tier $TIER > .work/all_${TIER}_$p.out 2>&1
  rc=$?
  python3 tools/note_run.py $p $TIER $rc $(( $(date +%s) - s )) 2>/dev/null
  echo "$p exit=$rc $(( $(date +%s) - s ))s $(grep -E 'held|VIOLATED|MACHINERY' .work/all_${TIER}_$p.out | cut -c1-160 | tail -1)"
done
