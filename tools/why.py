#!/usr/bin/env python3
"""usage: tools/why.py <replay.json> [deviation ...]  -- which clause of PoolTrace stops the stored trace?
Validates the trace once per clause name with that clause RELAXED (diagnostic runs only; never used by a
check) and prints the longest matched prefix each time."""
import json, os, re, sys
sys.path.insert(0, "/verif")
from harness import pooltrace, tlc

d = json.load(open(sys.argv[1]))
tr = d["trace"]
names = sorted(set(re.findall(r'Chk\("([^"]+)"', open("/verif/spec/PoolTrace.tla").read())))
base, _ = tlc.validate_traces("MCPoolTrace", pooltrace.trace_cfg(), [tr], nd=1)
print("intended design:", base[0][0], "events", len(tr["ev"]))
mc = "/verif/spec/MCPoolTrace.tla"
src = open(mc).read()
try:
    for n in names:
        open(mc, "w").write(src.replace("TrRelax == {}", 'TrRelax == {"%s"}' % n))
        r, _ = tlc.validate_traces("MCPoolTrace", pooltrace.trace_cfg(), [tr], nd=1)
        if r[0][0] != base[0][0]:
            print(f"  relaxing {n:24s} -> {r[0][0]}")
finally:
    open(mc, "w").write(src)
