#!/usr/bin/env python3
"""usage: tools/matrix_one.py <seeded id> [tier] [also-props,...]
Runs the check of the change's own property (plus --also) against the seeded change in isolation
(tools/par_mutant.sh) and records the verdict in seeded/RESULTS.json and seeded/<id>/meta.json."""
import fcntl, json, os, re, subprocess, sys

V = "/verif"
sid = sys.argv[1]
tier = sys.argv[2] if len(sys.argv) > 2 else "quick"
also = [p for p in (sys.argv[3].split(",") if len(sys.argv) > 3 else []) if p]
prop = sid.split("-")[0]
props = [prop] + [p for p in also if p != prop]
r = subprocess.run([V + "/tools/par_mutant.sh", f"{V}/seeded/{sid}/patch.diff", "mx_" + sid, tier] + props, capture_output=True, text=True)
print(r.stdout.strip())
os.makedirs(V + "/.work", exist_ok=True)
lk = open(V + "/.work/results.lock", "w"); fcntl.flock(lk, fcntl.LOCK_EX)
rf = V + "/seeded/RESULTS.json"
res = json.load(open(rf)) if os.path.exists(rf) else {}
head = subprocess.run("git -C /repo rev-parse --short HEAD", shell=True, capture_output=True, text=True).stdout.strip()
for ln in r.stdout.splitlines():
    m = re.match(r"(\S+) (C\d\d)/(\w+) exit=(\d+) violations=(\d+) (\d+)s ?(.*)", ln)
    if m:
        res.setdefault(sid, {})[f"{m.group(2)}/{m.group(3)}"] = {"exit": int(m.group(4)), "violations": int(m.group(5)), "first": m.group(7).strip()[:300], "machinery": [], "wall_s": int(m.group(6)), "repo_head": head}
json.dump(res, open(rf, "w"), indent=1, sort_keys=True)
mf = f"{V}/seeded/{sid}/meta.json"
meta = json.load(open(mf))
meta["checks_run_against_it"] = res.get(sid, {})
meta["detected_by"] = sorted(k for k, v in res.get(sid, {}).items() if v["exit"] == 1)
json.dump(meta, open(mf, "w"), indent=1)
