#!/usr/bin/env python3
"""usage: tools/mutants.py [--tier quick] [--also C01,C12 ...] <seeded id> ...   (default: all)
Applies each seeded change to /repo, runs the check of its property (plus --also), reverts, and
records the verdicts in seeded/RESULTS.json and seeded/<id>/meta.json.  /repo must be clean."""
import argparse, glob, json, os, re, subprocess, sys, time

V = "/verif"
ap = argparse.ArgumentParser()
ap.add_argument("--tier", default="quick")
ap.add_argument("--also", default="")
ap.add_argument("ids", nargs="*")
a = ap.parse_args()
ids = a.ids or sorted(os.path.basename(p) for p in glob.glob(V + "/seeded/C??-?"))
rf = V + "/seeded/RESULTS.json"
results = json.load(open(rf)) if os.path.exists(rf) else {}
for sid in ids:
    if subprocess.run(["git", "-C", "/repo", "diff", "--quiet"]).returncode != 0:
        sys.exit("/repo has local modifications; refusing")
    prop = sid.split("-")[0]
    props = [prop] + [p for p in a.also.split(",") if p and p != prop]
    if subprocess.run(["git", "-C", "/repo", "apply", f"{V}/seeded/{sid}/patch.diff"]).returncode != 0:
        print(sid, "patch does not apply"); continue
    try:
        for p in props:
            t = time.time()
            r = subprocess.run(["./check", p, "--tier", a.tier], cwd=V, capture_output=True, text=True)
            out = r.stdout + r.stderr
            viol = [l for l in out.splitlines() if l.startswith("VIOLATION")]
            why = ""
            m = re.search(r"^VIOLATION.*\n\s+(.*)$", out, re.M)
            if m: why = m.group(1)[:300]
            mach = [l for l in out.splitlines() if "MACHINERY" in l][:1]
            results.setdefault(sid, {})[f"{p}/{a.tier}"] = {"exit": r.returncode, "violations": len(viol), "first": why, "machinery": mach, "wall_s": round(time.time() - t)}
            print(sid, p, a.tier, "exit", r.returncode, len(viol), "violations", why[:150], mach, flush=True)
    finally:
        subprocess.run(["git", "-C", "/repo", "checkout", "--", "."])
    json.dump(results, open(rf, "w"), indent=1, sort_keys=True)
    mf = f"{V}/seeded/{sid}/meta.json"
    meta = json.load(open(mf))
    meta["checks_run_against_it"] = results[sid]
    meta["detected_by"] = sorted(k for k, v in results[sid].items() if v["exit"] == 1)
    json.dump(meta, open(mf, "w"), indent=1)
