------------------------------ MODULE UrlTrace ------------------------------
(* Observations of httpcore.URL / Origin / the Host header on the wire, judged against
   UrlModel.Expected.  One state per case (the verdict is per trace). *)
EXTENDS UrlModel, Json, IOUtils, TLCExt
CONSTANT Accept            \* known deviations accepted in diagnostic runs (set of names)

Traces == JsonDeserialize(IOEnv.TRACE_FILE)
VARIABLES tid, l
Tr == Traces[tid]
S == Tr.shape
O == Tr.obs
E == Expected(S)

TInit == tid \in 1..Len(Traces) /\ l = 1

(* DEVIATIONS of the code (named; switched on only to explain a rejection) *)
ParamsDropped == "LastSegmentParamsDropped" \in Accept /\ S.path = "lastparam"
  /\ O.target = <<"/a", "/b">> \o QueryToks(S)
Ipv6Unbracketed == "Ipv6HostUnbracketed" \in Accept /\ IsV6(S)

Judge ==
  /\ O.scheme = E.scheme /\ O.host = E.host /\ O.port = E.port /\ O.oport = E.oport
  /\ (O.target = E.target \/ ParamsDropped)
  /\ (O.hosthdr = E.hosthdr \/ Ipv6Unbracketed)
  /\ (O.roundtrip = E.roundtrip \/ Ipv6Unbracketed)
  /\ O.ohost = E.host /\ O.oscheme = E.scheme

TStep == l = 1 /\ Judge /\ l' = 2 /\ UNCHANGED tid
TSpec == TInit /\ [][TStep]_<<tid, l>>

ASSUME \A x \in 1..Len(Traces) : TLCSet(x, 0)
Mark == IF TLCGet(tid) < l THEN TLCSet(tid, l) ELSE TRUE
Post == \A x \in 1..Len(Traces) :
          PrintT(<<"TRACE", x, 1, IF TLCGet(x) = 2 THEN "ACCEPT" ELSE "REJECT", TLCGet(x)>>)
=============================================================================
