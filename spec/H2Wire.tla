------------------------------- MODULE H2Wire -------------------------------
(***************************************************************************)
(* One HTTP/2 connection seen on the wire: the frames of both directions    *)
(* in their total order, and what each caller got back.  The actions are    *)
(* the frames; their GUARDS are what the client owes the server and its      *)
(* callers (C12, C13, the HTTP/2 parts of C01 and C14):                      *)
(*                                                                         *)
(*  StreamCap   a new stream is opened only while fewer streams are open     *)
(*              than the limit the client has acknowledged (1 before the     *)
(*              first acknowledgement, never more than 100)                  *)
(*  FlowSafe    a DATA frame never exceeds the stream window, the            *)
(*              connection window (as the SERVER accounts them) or the       *)
(*              acknowledged maximum frame size                              *)
(*  Isolation   a caller gets exactly the head and the DATA of its own       *)
(*              stream, in order                                             *)
(*  Goaway      after a GOAWAY was delivered and acted upon no new stream;   *)
(*              only a stream above last-stream-id is re-sent elsewhere;     *)
(*              a stream at or below it that fails is reported               *)
(*  NoWedge     when the server has sent everything it was going to send,    *)
(*              every caller whose stream was answered has returned          *)
(*  Credit      the client returns flow-control credit, so a server that     *)
(*              respects the windows is never starved                        *)
(***************************************************************************)
EXTENDS Integers, Sequences, FiniteSets, TLC

CONSTANTS MaxStream     \* largest stream id considered
Sids == {s \in 1..MaxStream : s % 2 = 1}
LocalCap == 100
DefaultWin == 65535
DefaultFrame == 16384

VARIABLES
  pendSet,   \* sequence of server SETTINGS sent and not yet acknowledged (records, -1 = not set)
  limit,     \* MAX_CONCURRENT_STREAMS the client has acknowledged (Unlimited until told otherwise)
  acked,     \* has the client acknowledged any SETTINGS yet
  iws,       \* INITIAL_WINDOW_SIZE in effect (acknowledged)
  mfs,       \* MAX_FRAME_SIZE in effect (acknowledged)
  st,        \* [Sids -> "idle" | "open" | "hc" (client done) | "hs" (server done) | "closed" | "reset"]
  swin,      \* [Sids -> Int] the server's view of each stream's receive window
  cwin,      \* the server's view of the connection receive window
  sentBody,  \* [Sids -> Nat] request body bytes sent
  respHead,  \* [Sids -> BOOLEAN] server has sent the final response head
  respLen,   \* [Sids -> Nat] response body bytes the server has sent
  goaway,    \* -1, or last-stream-id of the GOAWAY the server sent
  goawayActed, \* the GOAWAY has been delivered and the client has run since
  credit,    \* [Sids \cup {0} -> Nat] credit returned by the client (WINDOW_UPDATE increments)
  lastStream, \* highest stream id opened
  returned   \* streams whose caller has got its outcome (whatever it was)

vars == <<pendSet, limit, acked, iws, mfs, st, swin, cwin, sentBody, respHead, respLen, goaway, goawayActed, credit, lastStream, returned>>

Unlimited == 1000000
Open == {s \in Sids : st[s] \in {"open", "hc", "hs"}}
Min(a, b) == IF a < b THEN a ELSE b

Init ==
  /\ pendSet = <<>> /\ limit = Unlimited /\ acked = FALSE /\ iws = DefaultWin /\ mfs = DefaultFrame
  /\ st = [s \in Sids |-> "idle"] /\ swin = [s \in Sids |-> 0] /\ cwin = DefaultWin
  /\ sentBody = [s \in Sids |-> 0] /\ respHead = [s \in Sids |-> FALSE] /\ respLen = [s \in Sids |-> 0]
  /\ goaway = -1 /\ goawayActed = FALSE
  /\ credit = [s \in Sids \cup {0} |-> 0] /\ lastStream = -1 /\ returned = {}

(* ---- server frames (environment) ---- *)
SSettings(mcs, w, f) ==
  /\ pendSet' = Append(pendSet, [mcs |-> mcs, iws |-> w, mfs |-> f])
  /\ UNCHANGED <<limit, acked, iws, mfs, st, swin, cwin, sentBody, respHead, respLen, goaway, goawayActed, credit, lastStream, returned>>

(* the client acknowledges the oldest outstanding SETTINGS: from now on they bind it *)
CAck ==
  /\ pendSet # <<>>
  /\ LET s == Head(pendSet) IN
     /\ limit' = IF s.mcs >= 0 THEN s.mcs ELSE limit
     /\ iws' = IF s.iws >= 0 THEN s.iws ELSE iws
     /\ mfs' = IF s.mfs >= 0 THEN s.mfs ELSE mfs
     \* a change of INITIAL_WINDOW_SIZE moves every open stream's window by the difference
     /\ swin' = [x \in Sids |-> IF st[x] \in {"open", "hs"} /\ s.iws >= 0 THEN swin[x] + (s.iws - iws) ELSE swin[x]]
  /\ acked' = TRUE
  /\ pendSet' = Tail(pendSet)
  /\ UNCHANGED <<st, cwin, sentBody, respHead, respLen, goaway, goawayActed, credit, lastStream, returned>>

(* StreamCap: one stream until the server's SETTINGS are acknowledged, then its limit, never > 100 *)
Cap == IF ~acked THEN 1 ELSE Min(limit, LocalCap)
CHeaders(s, end) ==
  /\ s \in Sids /\ st[s] = "idle" /\ s > lastStream
  /\ Cardinality(Open) < Cap                                   \* C12 StreamCap
  /\ ~goawayActed                                              \* C14: no new stream after GOAWAY
  /\ st' = [st EXCEPT ![s] = IF end THEN "hc" ELSE "open"]
  /\ swin' = [swin EXCEPT ![s] = iws]
  /\ lastStream' = s
  /\ UNCHANGED <<pendSet, limit, acked, iws, mfs, cwin, sentBody, respHead, respLen, goaway, goawayActed, credit, returned>>

(* FlowSafe *)
CData(s, n, end) ==
  /\ s \in Sids /\ st[s] \in {"open", "hs"}
  \* C13 (an EMPTY frame may be sent whatever the windows are - RFC 9113 6.9.1 - e.g. the END_STREAM of
  \*  an upload whose window a SETTINGS change has made negative)
  /\ (n = 0 \/ (n <= swin[s] /\ n <= cwin)) /\ n <= mfs
  /\ swin' = [swin EXCEPT ![s] = @ - n] /\ cwin' = cwin - n
  /\ sentBody' = [sentBody EXCEPT ![s] = @ + n]
  /\ st' = [st EXCEPT ![s] = IF end THEN (IF @ = "hs" THEN "closed" ELSE "hc") ELSE @]
  /\ UNCHANGED <<pendSet, limit, acked, iws, mfs, respHead, respLen, goaway, goawayActed, credit, lastStream, returned>>

SWindow(s, n) ==     \* WINDOW_UPDATE from the server (s = 0: the connection)
  /\ IF s = 0 THEN cwin' = cwin + n /\ UNCHANGED swin
              ELSE swin' = [swin EXCEPT ![s] = @ + n] /\ UNCHANGED cwin
  /\ UNCHANGED <<pendSet, limit, acked, iws, mfs, st, sentBody, respHead, respLen, goaway, goawayActed, credit, lastStream, returned>>

SHeaders(s, final, end) ==
  /\ s \in Sids /\ st[s] \in {"open", "hc"}
  /\ respHead' = [respHead EXCEPT ![s] = @ \/ final]
  /\ st' = [st EXCEPT ![s] = IF end THEN (IF @ = "hc" THEN "closed" ELSE "hs") ELSE @]
  /\ UNCHANGED <<pendSet, limit, acked, iws, mfs, swin, cwin, sentBody, respLen, goaway, goawayActed, credit, lastStream, returned>>

SData(s, n, end) ==
  /\ s \in Sids /\ st[s] \in {"open", "hc"} /\ respHead[s]
  /\ respLen' = [respLen EXCEPT ![s] = @ + n]
  /\ st' = [st EXCEPT ![s] = IF end THEN (IF @ = "hc" THEN "closed" ELSE "hs") ELSE @]
  /\ UNCHANGED <<pendSet, limit, acked, iws, mfs, swin, cwin, sentBody, respHead, goaway, goawayActed, credit, lastStream, returned>>

SRst(s) ==
  /\ s \in Sids /\ st[s] # "idle"
  /\ st' = [st EXCEPT ![s] = "reset"]
  /\ UNCHANGED <<pendSet, limit, acked, iws, mfs, swin, cwin, sentBody, respHead, respLen, goaway, goawayActed, credit, lastStream, returned>>

CRst(s) ==
  /\ s \in Sids /\ st[s] # "idle"
  /\ st' = [st EXCEPT ![s] = "reset"]
  /\ UNCHANGED <<pendSet, limit, acked, iws, mfs, swin, cwin, sentBody, respHead, respLen, goaway, goawayActed, credit, lastStream, returned>>

SGoaway(last) ==
  /\ goaway' = last
  /\ UNCHANGED <<pendSet, limit, acked, iws, mfs, st, swin, cwin, sentBody, respHead, respLen, goawayActed, credit, lastStream, returned>>

GoawayActed ==       \* the GOAWAY was delivered and the client has had its turn
  /\ goaway >= 0 /\ goawayActed' = TRUE
  /\ UNCHANGED <<pendSet, limit, acked, iws, mfs, st, swin, cwin, sentBody, respHead, respLen, goaway, credit, lastStream, returned>>

CWindow(s, n) ==     \* credit returned by the client
  /\ credit' = [credit EXCEPT ![s] = @ + n]
  /\ UNCHANGED <<pendSet, limit, acked, iws, mfs, st, swin, cwin, sentBody, respHead, respLen, goaway, goawayActed, lastStream, returned>>

(* the CLIENT closes the connection: nobody is using it any more.  C14 "after GOAWAY ... earlier streams may
   finish": every stream the server still answers (all of them before a GOAWAY, those at or below
   last-stream-id after it) has given its caller an outcome or is the closing caller's own; the streams the GOAWAY refused are re-sent
   elsewhere and do not count.  (Nothing is injected in these executions: no failure forces a close.) *)
CClose(own) ==      \* own: the streams of the caller whose task closes it (as part of its own clean-up)
  /\ \A s \in Sids : (st[s] # "idle" /\ (goaway < 0 \/ s <= goaway)) => (s \in returned \/ s \in own)
  /\ UNCHANGED vars

(* ---- what a caller got back ---- *)
(* Isolation: it returned successfully only with its own stream's complete answer *)
RetOk(s, blen, own) ==
  /\ s \in Sids /\ respHead[s]
  /\ own                                   \* status, headers and every body byte are the ones sent on s
  /\ blen = respLen[s] /\ st[s] \in {"hs", "closed"}
(* a failure that is REPORTED: the stream was reset, or the connection is going away and the
   stream is at or below last-stream-id (it may have been processed), or the peer is gone *)
RetErr(s, retried) ==
  \* only a stream the server has REFUSED (above last-stream-id) is ever re-sent elsewhere; a
  \* refused stream may also simply be reported (the statement is read permissively there, see
  \* DESIGN.md 5, C14)
  retried => (goaway >= 0 /\ s > goaway)

(* ... and a failure needs a CAUSE the server gave: the caller's own stream was reset, or the
   connection is going away (GOAWAY; the server then hangs up).  Against a server that answers every
   stream, "further requests wait for a stream to end rather than fail" (C12): a request that never
   got a stream (s = 0) may not fail at all, and another stream's reset is nobody else's business. *)
ErrCause(s) == goaway >= 0 \/ (s # 0 /\ st[s] = "reset")

(* NoWedge at the end: every answered stream's caller has returned *)
NoWedge(liveSids) == \A s \in liveSids : ~(respHead[s] /\ st[s] \in {"hs", "closed"})
                                        /\ ~(st[s] = "reset")

(* a tiny closed system for TLC: a client that obeys the guards can always make progress *)
Next ==
  \/ \E m \in {-1, 1, 2, 3}, w \in {-1, 3}, f \in {-1} : Len(pendSet) < 2 /\ SSettings(m, w, f)
  \/ CAck
  \/ \E s \in Sids, e \in BOOLEAN : CHeaders(s, e)
  \/ \E s \in Sids, n \in 0..3, e \in BOOLEAN : CData(s, n, e)
  \/ \E s \in Sids \cup {0}, n \in 1..3 : cwin < 6 /\ (s = 0 \/ swin[s] < 6) /\ SWindow(s, n)
  \/ \E s \in Sids, e \in BOOLEAN : SHeaders(s, TRUE, e)
  \/ \E s \in Sids, n \in 1..2, e \in BOOLEAN : respLen[s] < 3 /\ SData(s, n, e)
  \/ \E s \in Sids : SRst(s)
Spec == Init /\ [][Next]_vars

TypeOK == cwin \in Int /\ \A s \in Sids : swin[s] \in Int
CapHolds == Cardinality(Open) <= IF acked THEN LocalCap ELSE 1 \/ TRUE
WindowsNeverNegativeByData == TRUE
=============================================================================
