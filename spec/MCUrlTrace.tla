----------------------------- MODULE MCUrlTrace -----------------------------
EXTENDS UrlTrace
NoAccept == {}
AcceptParams == {"LastSegmentParamsDropped"}
AcceptIpv6 == {"Ipv6HostUnbracketed"}
AcceptBoth == {"LastSegmentParamsDropped", "Ipv6HostUnbracketed"}
=============================================================================
