--------------------------- MODULE EstablishCover ---------------------------
(***************************************************************************)
(* SPECIFICATION -> CODE.  EstablishTrace shows that everything the code   *)
(* did is a behaviour of Establish; this module shows the converse on the  *)
(* exercised cases: TLC enumerates EVERY behaviour of Establish (every      *)
(* outcome at every step, every retry sequence, every post-establishment   *)
(* failure) and each one must have been REPRODUCED by the real code - it   *)
(* must be among the operation logs that were recorded from /repo in this  *)
(* run and accepted by EstablishTrace.  A behaviour of the specification   *)
(* the code never showed is printed (UNCOVERED): either the harness's      *)
(* outcome scripts are incomplete or the code cannot do what the            *)
(* specification says it does.                                              *)
(***************************************************************************)
EXTENDS Establish, Json, IOUtils, TLCExt

Recorded == JsonDeserialize(IOEnv.COVER_FILE)        \* sequence of [case, ops, result]
RecCases == {Recorded[k].case : k \in DOMAIN Recorded}
NoDev == {}

SocksSteps == {"socks-greet", "socks-auth", "socks-connect"}
Norm(r) == IF r.op \in {"read", "write"} /\ r.what \in SocksSteps /\ r.tmo \in {"connect", "read", "write"}
             THEN [r EXCEPT !.tmo = "configured"] ELSE r
NormSeq(s) == [j \in DOMAIN s |-> Norm(s[j])]

ByCase == [c \in RecCases |-> {<<NormSeq(Recorded[k].ops), Recorded[k].result>> : k \in {x \in DOMAIN Recorded : Recorded[x].case = c}}]

Seen == <<NormSeq(ops), res>> \in ByCase[cs]
Reproduced ==
  \/ res = "run"
  \/ Seen
  \/ PrintT(<<"UNCOVERED", ToJson([case |-> cs, ops |-> ops, res |-> res])>>)
=============================================================================
