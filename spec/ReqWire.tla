------------------------------ MODULE ReqWire ------------------------------
(***************************************************************************)
(* What a request looks like on the wire (C03): _models.py 109-136,         *)
(* http11.py 140-166, http2.py 29-33, 218-279.                              *)
(* A request is described by its SHAPE; ExpectedH11 / ExpectedH2 say what    *)
(* an independent parser must read from the bytes written.                   *)
(***************************************************************************)
EXTENDS Integers, Sequences, FiniteSets, TLC

Shapes == [method : {"GET", "POST", "M-X"},
           target : {"path", "pathquery", "ext", "star"},        \* "ext": the 'target' extension overrides the URL's
           hl : {"none", "one", "dupcase", "three"},             \* the caller's own header list
           host : {"no", "first", "last"},                       \* does the caller supply Host (and where)
           cl : BOOLEAN, te : BOOLEAN,                           \* does the caller supply Content-Length / Transfer-Encoding
           content : {"none", "bytes0", "bytes5", "iter23", "iter050", "iterempty"},
           bad : {"none", "method", "hname", "hvalue", "target",       \* a head HTTP/1.1 cannot encode
                  "h2te", "h2path"},                                   \* a head HTTP/2 cannot encode: TE other than
                                                                       \* "trailers", an empty :path (a Connection field is
                                                                       \* not one: the h2 layer drops it, RFC 9113 8.2.2)
           proto : {"h11", "h2"}]

Valid(s) ==
  /\ ~(s.cl /\ s.te)
  /\ (s.bad \in {"method", "hname", "hvalue", "target"} => s.proto = "h11")
  /\ (s.bad \in {"h2te", "h2path"} => s.proto = "h2")
  /\ (s.bad = "h2path" => s.target = "ext")                          \* only the 'target' extension can give an empty :path
  /\ (s.te => s.content \in {"iter23", "iter050", "iterempty"})      \* chunked needs an iterator body
  /\ (s.cl => s.content # "none")
  /\ (s.content = "none" => s.method # "POST")

Chunks(s) == CASE s.content = "bytes5" -> <<5>> [] s.content = "iter23" -> <<2, 3>>
               [] s.content = "iter050" -> <<0, 5, 0>> [] OTHER -> <<>>
RECURSIVE Sum(_)
Sum(q) == IF q = <<>> THEN 0 ELSE Head(q) + Sum(Tail(q))
BodyLen(s) == Sum(Chunks(s))
Body(s) == [j \in 1..BodyLen(s) |-> 64 + j]                           \* the caller's bytes, in order, once
IsBytes(s) == s.content \in {"bytes0", "bytes5"}
IsIter(s)  == s.content \in {"iter23", "iter050", "iterempty"}

TargetOf(s) == CASE s.target = "path" -> "/p" [] s.target = "pathquery" -> "/p?q=1"
                 [] s.target = "ext" -> "/from-extension" [] OTHER -> "*"
Own(s) == CASE s.hl = "none" -> <<>>
            [] s.hl = "one" -> << <<"X-A", "1">> >>
            [] s.hl = "dupcase" -> << <<"X-A", "1">>, <<"x-a", "2">>, <<"X-A", "3">> >>
            [] OTHER -> << <<"B", "1">>, <<"X-A", "2">>, <<"C", "3">> >>
HostGiven == <<"hOsT", "given.test">>
Str(n) == CASE n = 0 -> "0" [] n = 5 -> "5" [] OTHER -> "?"
Framing(s) == (IF s.cl THEN << <<"Content-Length", Str(BodyLen(s))>> >> ELSE <<>>)
              \o (IF s.te THEN << <<"Transfer-Encoding", "chunked">> >> ELSE <<>>)
(* the header list the caller passes: own headers, Host where requested, framing headers last *)
Given(s) == (IF s.host = "first" THEN <<HostGiven>> ELSE <<>>) \o Own(s) \o Framing(s)
            \o (IF s.host = "last" THEN <<HostGiven>> ELSE <<>>)
(* defaults are supplied only when the caller omitted them (order kept, Host leads) *)
WithDefaults(s) ==
  (IF s.host = "no" THEN << <<"Host", "origin.test">> >> ELSE <<>>)
  \o Given(s)
  \o (IF s.cl \/ s.te \/ s.content = "none" THEN <<>>
      ELSE IF IsBytes(s) THEN << <<"Content-Length", Str(BodyLen(s))>> >>
      ELSE << <<"Transfer-Encoding", "chunked">> >>)

ExpectedH11(s) ==
  IF s.bad # "none" THEN [kind |-> "LocalProtocolError", written |-> 0]       \* nothing of it is written
  ELSE [kind |-> "ok", method |-> s.method, target |-> TargetOf(s), headers |-> WithDefaults(s), body |-> Body(s)]

Lower(n) == CASE n = "X-A" -> "x-a" [] n = "B" -> "b" [] n = "C" -> "c" [] n = "Host" -> "host" [] n = "hOsT" -> "host"
              [] n = "Content-Length" -> "content-length" [] n = "Transfer-Encoding" -> "transfer-encoding" [] OTHER -> n
HasBodyHeaders(s) == \E j \in DOMAIN WithDefaults(s) : Lower(WithDefaults(s)[j][1]) \in {"content-length", "transfer-encoding"}
Authority(s) == IF s.host = "no" THEN "origin.test" ELSE "given.test"
ExpectedH2(s) ==
  IF s.bad # "none" THEN [kind |-> "LocalProtocolError", written |-> 0]       \* nothing of it is written
  ELSE
  [kind |-> "ok",
   headers |-> << <<":method", s.method>>, <<":authority", Authority(s)>>, <<":scheme", "http">>, <<":path", TargetOf(s)>> >>
               \o SelectSeq([j \in DOMAIN WithDefaults(s) |-> <<Lower(WithDefaults(s)[j][1]), WithDefaults(s)[j][2]>>],
                            LAMBDA h : h[1] \notin {"host", "transfer-encoding"}),
   endOnHeaders |-> ~HasBodyHeaders(s),
   body |-> IF HasBodyHeaders(s) THEN Body(s) ELSE <<>>,
   ended |-> TRUE]

Expected(s) == IF s.proto = "h11" THEN ExpectedH11(s) ELSE ExpectedH2(s)

(* laws on the model *)
HostExactlyOnce(S) == \A s \in S : (s.bad = "none") =>
   Cardinality({j \in DOMAIN WithDefaults(s) : Lower(WithDefaults(s)[j][1]) = "host"}) = 1
FramingAtMostOnce(S) == \A s \in S : Cardinality({j \in DOMAIN WithDefaults(s) : Lower(WithDefaults(s)[j][1]) \in {"content-length", "transfer-encoding"}}) <= 1
BodyFramedIffPresent(S) == \A s \in S : (BodyLen(s) > 0) => HasBodyHeaders(s)
=============================================================================
