---------------------------- MODULE UpgradeTrace ----------------------------
(***************************************************************************)
(* Lock-step replay of the reads a caller performed on the stream handed    *)
(* over by a 101 / CONNECT-2xx response of the REAL HTTP/1.1 connection.    *)
(* Each logged read (max_bytes, bytes returned) must be exactly what the    *)
(* specification returns; afterwards the connection must not be idle, and   *)
(* what the caller wrote must have reached the stream unchanged.            *)
(***************************************************************************)
EXTENDS Upgrade, Json, IOUtils, TLCExt

Traces == JsonDeserialize(IOEnv.TRACE_FILE)
VARIABLES tid, l
Tr == Traces[tid]
N == Len(Tr.reads)
Ev == Tr.reads[l]

TInit ==
  /\ tid \in 1..Len(Traces) /\ l = 1
  /\ n = Tr.n /\ lead = Tr.lead /\ cuts = {Tr.cuts[j] : j \in DOMAIN Tr.cuts}
  /\ leading = Sub(TailB, 1, lead) /\ pos = lead + 1
  /\ out = <<>> /\ nreads = 0 /\ last = [m |-> 0, got |-> <<>>]

TRead ==
  /\ l <= N
  /\ Read(Ev.m)
  /\ last'.got = Ev.got
  /\ Conservation' /\ Bounded'
  /\ l' = l + 1 /\ UNCHANGED tid

TEnd ==
  /\ l = N + 1
  /\ ~Tr.idle_after          \* never returned to the pool for another request
  /\ Tr.write_ok             \* writes pass straight through
  /\ l' = l + 1 /\ UNCHANGED <<vars, tid>>

TNext == TRead \/ TEnd
TSpec == TInit /\ [][TNext]_<<vars, tid, l>>

ASSUME \A x \in 1..Len(Traces) : TLCSet(x, 0)
Mark == IF TLCGet(tid) < l THEN TLCSet(tid, l) ELSE TRUE
Post == \A x \in 1..Len(Traces) :
          PrintT(<<"TRACE", x, 1, IF TLCGet(x) = Len(Traces[x].reads) + 2 THEN "ACCEPT" ELSE "REJECT", TLCGet(x)>>)
=============================================================================
