---------------------------- MODULE ThreadCoarse ----------------------------
(***************************************************************************)
(* C08 at LINE grain.  When threads are pre-empted at arbitrary source      *)
(* lines of httpcore/_sync/*.py the intermediate states no longer line up   *)
(* with the critical sections that Pool.tla takes as atomic, so those       *)
(* executions are not judged by PoolTrace but by this monitor: what the     *)
(* property promises to the CALLERS and about the pool, whatever the        *)
(* interleaving was (well-behaved servers, nothing injected):               *)
(*                                                                         *)
(*   Own       every caller gets the response and body sent for ITS request *)
(*   Once      its request head was seen on at most one stream              *)
(*   Limit     the pool never lists more than max_connections connections   *)
(*   NoFail    no network operation fails; every call returns successfully; *)
(*             in particular no internal error (ValueError of a failed list *)
(*             removal, AssertionError, ...) reaches a caller               *)
(*   NoHang    at the end every thread has returned (no lost wake-up, no    *)
(*             deadlock)                                                    *)
(*   Rest      at the end the queue is empty, the pool is within both       *)
(*             limits and every open stream belongs to a pooled connection  *)
(*                                                                         *)
(* The one named deviation is the evict || activate race of Pool.tla        *)
(* (ActivateEvicted): a connection is activated although it has left the    *)
(* pool, or leaves the pool while a request has just activated it.  Such a  *)
(* connection is TAINTED: failures on it, the call failing, are explained.  *)
(***************************************************************************)
EXTENDS Integers, Sequences, FiniteSets, TLC, Json, IOUtils, TLCExt

CONSTANTS DevChoices, MaxC
Traces == JsonDeserialize(IOEnv.TRACE_FILE)

VARIABLES tid, di, l,
          phase,    \* [request -> "init" | "called" | "got" | "body" | "ret"]
          cnt,      \* [connection -> request count last seen]
          inpool,   \* [connection -> listed by the pool when last seen]
          pst,      \* [connection -> state string last seen]
          tainted,  \* connections hit by the evict || activate race
          hit,      \* requests that saw a failure on a tainted connection
          dup       \* a caller failed with the signature of a duplicated HTTP/2 stream id (MuxStreamIdRace)
vars == <<tid, di, l, phase, cnt, inpool, pst, tainted, hit, dup>>

T  == Traces[tid]
N  == Len(T.ev)
Ev == T.ev[l]
Reqs == 1..T.cfg.n
Conns == 1..MaxC
Dev(d) == d \in DevChoices[di]
SeqToSet(s) == {s[i] : i \in DOMAIN s}

TInit ==
  /\ tid \in 1..Len(Traces) /\ di \in 1..Len(DevChoices) /\ l = 1
  /\ phase = [r \in 1..8 |-> "init"]
  /\ cnt = [c \in Conns |-> 0] /\ inpool = [c \in Conns |-> FALSE] /\ pst = [c \in Conns |-> ""]
  /\ tainted = {} /\ hit = {} /\ dup = FALSE

Step(e) == l <= N /\ Ev.e = e /\ l' = l + 1 /\ UNCHANGED <<tid, di>>

Call == Step("Call") /\ phase[Ev.r] = "init"
        /\ phase' = [phase EXCEPT ![Ev.r] = "called"] /\ UNCHANGED <<cnt, inpool, pst, tainted, hit, dup>>

Got == Step("Got") /\ phase[Ev.r] = "called"
       /\ Ev.tokok /\ Ev.route = "ok" /\ Ev.nsent <= 1                 \* Own, Once
       /\ phase' = [phase EXCEPT ![Ev.r] = "got"] /\ UNCHANGED <<cnt, inpool, pst, tainted, hit, dup>>

Body == Step("Body") /\ phase[Ev.r] = "got"
        /\ Ev.bodyok                                                      \* Own
        /\ phase' = [phase EXCEPT ![Ev.r] = "body"] /\ UNCHANGED <<cnt, inpool, pst, tainted, hit, dup>>

(* after every scheduling quantum: the pool and its connections through the public surface *)
Obs ==
  /\ Step("Obs")
  /\ Len(Ev.pool) <= T.cfg.maxConn                                       \* Limit
  /\ Len(Ev.cs) <= MaxC
  /\ LET K == 1..Len(Ev.cs)
         pooled(c) == c \in SeqToSet(Ev.pool)
         activated(c) == Ev.cs[c].cnt > cnt[c]
         \* the race: activated while outside the pool / removed while freshly active
         \* (at line grain the count is incremented a few lines before the state changes)
         raced == {c \in K : (activated(c) /\ ~pooled(c))
                                \/ (~pooled(c) /\ Ev.cs[c].st = "active" /\ pst[c] # "active")
                                \/ (inpool[c] /\ ~pooled(c) /\ Ev.cs[c].st = "active")}
     IN /\ raced # {} => Dev("ActivateEvicted")
        /\ tainted' = tainted \cup raced
        /\ cnt' = [c \in Conns |-> IF c \in K THEN Ev.cs[c].cnt ELSE cnt[c]]
        /\ inpool' = [c \in Conns |-> c \in K /\ pooled(c)]
        /\ pst' = [c \in Conns |-> IF c \in K THEN Ev.cs[c].st ELSE pst[c]]
  /\ UNCHANGED <<phase, hit, dup>>

(* a network operation failed although nothing was injected *)
(* DEVIATION MuxStreamIdRace (KF12): threads multiplexed on ONE HTTP/2 connection.  The stream id is
   read from the h2 state machine (get_next_available_stream_id) and only consumed later (send_headers),
   with no lock around the two: two threads are given the same id.  The h2 library refuses the second
   HEADERS on it (LocalProtocolError for one caller), the clean-up of the other deletes events that are no
   longer there (a raw KeyError), and the connection may be failed by the server for everybody. *)
MuxRace == Dev("MuxStreamIdRace") /\ ("mux" \in DOMAIN T.cfg) /\ T.cfg.mux

Fault ==
  /\ Step("Fault")
  /\ Ev.c \in tainted \/ MuxRace                                         \* NoFail
  /\ hit' = hit \cup {Ev.r}
  /\ UNCHANGED <<phase, cnt, inpool, pst, tainted, dup>>

Ret ==
  /\ Step("Ret")
  /\ Ev.nsent <= 1                                                       \* Once
  /\ \/ Ev.out = "ok" /\ phase[Ev.r] = "body" /\ UNCHANGED dup
     \/ Ev.out = "exc" /\ Ev.r \in hit /\ UNCHANGED dup                   \* NoFail ("internal" never passes)
     \* (the race fails one caller with the signature, and may fail the others collaterally - the server
     \*  answers the garbage with GOAWAY - before or after; End demands that the signature was seen)
     \/ MuxRace /\ Ev.out \in {"exc", "internal"}
           /\ dup' = (dup \/ (("why" \in DOMAIN Ev) /\ Ev.why = "dup-stream-id"))
  /\ phase' = [phase EXCEPT ![Ev.r] = "ret"]
  /\ UNCHANGED <<cnt, inpool, pst, tainted, hit>>

End ==
  /\ Step("End")
  /\ Ev.live = <<>>                                                      \* NoHang
  /\ \A r \in Reqs : phase[r] = "ret"
  /\ Ev.na = 0 /\ Ev.nq = 0                                              \* Rest
  /\ Len(Ev.pool) <= T.cfg.maxConn
  /\ Len(Ev.idle) <= T.cfg.maxKeep
  /\ SeqToSet(Ev.open) \subseteq SeqToSet(Ev.pool)
  /\ Dev("MuxStreamIdRace") => dup           \* (the deviation explains an execution only if the race is in it)
  /\ UNCHANGED <<phase, cnt, inpool, pst, tainted, hit, dup>>

TNext == Call \/ Got \/ Body \/ Obs \/ Fault \/ Ret \/ End
TSpec == TInit /\ [][TNext]_vars

ND == Len(DevChoices)
Reg == (tid - 1) * ND + di
ASSUME \A i \in 1..(Len(Traces) * ND) : TLCSet(i, 0)
Mark == IF TLCGet(Reg) < l THEN TLCSet(Reg, l) ELSE TRUE
Post == \A i \in 1..Len(Traces) : \A d \in 1..ND :
          PrintT(<<"TRACE", i, d, IF TLCGet((i - 1) * ND + d) = Len(Traces[i].ev) + 1 THEN "ACCEPT" ELSE "REJECT",
                   TLCGet((i - 1) * ND + d)>>)
=============================================================================
