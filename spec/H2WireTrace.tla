---------------------------- MODULE H2WireTrace ----------------------------
(* The frames of one HTTP/2 connection of the REAL client (and what its callers got back),
   recorded in their total order, replayed against H2Wire: every frame must satisfy its guard. *)
EXTENDS H2Wire, Json, IOUtils, TLCExt
Traces == JsonDeserialize(IOEnv.TRACE_FILE)
VARIABLES tid, l
Tr == Traces[tid]
N == Len(Tr.ev)
Ev == Tr.ev[l]
TInit == tid \in 1..Len(Traces) /\ l = 1 /\ Init

Frame ==
  CASE Ev.e = "S_SETTINGS" -> SSettings(Ev.mcs, Ev.iws, Ev.mfs)
    [] Ev.e = "C_ACK"      -> CAck
    [] Ev.e = "C_HEADERS"  -> CHeaders(Ev.sid, Ev.end)
    [] Ev.e = "C_DATA"     -> CData(Ev.sid, Ev.n, Ev.end)
    [] Ev.e = "C_WU"       -> CWindow(Ev.sid, Ev.n)
    [] Ev.e = "C_RST"      -> CRst(Ev.sid)
    [] Ev.e = "S_HEADERS"  -> SHeaders(Ev.sid, Ev.final, Ev.end)
    [] Ev.e = "S_DATA"     -> SData(Ev.sid, Ev.n, Ev.end)
    [] Ev.e = "S_RST"      -> SRst(Ev.sid)
    [] Ev.e = "S_GOAWAY"   -> SGoaway(Ev.last)
    [] Ev.e = "S_WU"       -> SWindow(Ev.sid, Ev.n)
    [] Ev.e = "QUIESCENT"  -> IF goaway >= 0 /\ ~goawayActed THEN GoawayActed ELSE UNCHANGED vars
    [] Ev.e = "DELIVER_GOAWAY" -> UNCHANGED vars
    [] Ev.e = "C_CLOSE" -> CClose({Ev.own[j] : j \in DOMAIN Ev.own})
    [] Ev.e = "RET" ->
         /\ returned' = IF Ev.sid # 0 THEN returned \cup {Ev.sid} ELSE returned
         /\ UNCHANGED <<pendSet, limit, acked, iws, mfs, st, swin, cwin, sentBody, respHead, respLen, goaway, goawayActed, credit, lastStream>>
         \* C03: every complete transmission of the caller's request - a transparent re-send on another
         \* connection included - carried exactly the caller's body
         /\ ("reqok" \in DOMAIN Ev) => Ev.reqok
         /\ CASE ("illegal" \in DOMAIN Ev) /\ Ev.illegal -> Ev.out = "exc:LocalProtocolError" /\ Ev.sid = 0
              [] Ev.sid = 0 /\ Ev.out \in {"ok", "abandoned"} -> Ev.own   \* served on another connection
              [] Ev.sid = 0 /\ Ev.out = "cancelled" -> TRUE
              [] Ev.sid # 0 /\ Ev.retried -> RetErr(Ev.sid, TRUE)         \* whatever the final outcome was
              [] Ev.out = "ok" -> RetOk(Ev.sid, Ev.blen, Ev.own)
              [] Ev.out = "abandoned" -> Ev.own            \* closed early: what it did read was its own
              [] Ev.out = "cancelled" -> TRUE
              [] OTHER -> RetErr(Ev.sid, Ev.retried) /\ ErrCause(Ev.sid)   \* a failure: reported, and caused
    [] Ev.e = "END" ->
         /\ UNCHANGED vars
         /\ NoWedge({Ev.live[j] : j \in DOMAIN Ev.live})
         \* ... and the client is not busy-looping (it waits for the network, or finishes)
         /\ ("spin" \in DOMAIN Ev) => ~Ev.spin
         \* Credit (C13): no stream of a server that respects the windows is left waiting for
         \* credit the client has not returned
         /\ Ev.srvblocked = <<>>
         \* ... and no upload is stalled although its windows (as the server accounts them) are open
         /\ \A j \in DOMAIN Ev.live : ~(st[Ev.live[j]] = "open" /\ swin[Ev.live[j]] > 0 /\ cwin > 0)
    [] OTHER -> FALSE

TStep == l <= N /\ Frame /\ l' = l + 1 /\ UNCHANGED tid
TSpec == TInit /\ [][TStep]_<<vars, tid, l>>
ASSUME \A x \in 1..Len(Traces) : TLCSet(x, 0)
Mark == IF TLCGet(tid) < l THEN TLCSet(tid, l) ELSE TRUE
Post == \A x \in 1..Len(Traces) :
          PrintT(<<"TRACE", x, 1, IF TLCGet(x) = Len(Traces[x].ev) + 1 THEN "ACCEPT" ELSE "REJECT", TLCGet(x)>>)
=============================================================================
