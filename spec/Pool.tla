------------------------------- MODULE Pool -------------------------------
(***************************************************************************)
(* The httpcore connection pool together with the life cycle of the        *)
(* connections it manages, at the grain of the async implementation:       *)
(* ONE ACTION PER CRITICAL SECTION (code between two suspension points).   *)
(*                                                                         *)
(*   httpcore/_async/connection_pool.py   queue, assignment pass, close    *)
(*   httpcore/_async/connection.py        establishment, failure flag      *)
(*   httpcore/_async/http11.py            NEW/ACTIVE/IDLE/CLOSED, reuse    *)
(*   httpcore/_async/http2.py             (a multiplexing connection as a  *)
(*                                         black box; detail in H2Conn)    *)
(*                                                                         *)
(* Deviations of the code from the intended design are NAMED and switched  *)
(* on by the constant Deviations (empty = intended design).                *)
(***************************************************************************)
EXTENDS Integers, Sequences, FiniteSets, TLC

CONSTANTS
  Req,          \* requests (calls), small integers; arrival order is free
  Conn,         \* connection identifiers 1..N (allocated in order)
  Origin,       \* origins
  Cfgs,         \* set of configurations explored; a configuration is a record
                \*   originOf : [Req -> Origin]
                \*   maxConn  : pool limit
                \*   maxKeep  : keep-alive limit (already min'ed with maxConn by the constructor)
                \*   expiry   : keep-alive expiry in ticks, or NoExpiry
                \*   poolTO   : [Req -> pool timeout in ticks, or NoTimeout]
                \*   mux      : origins whose connections turn out to be HTTP/2
                \*   muxGuess : origins whose still-connecting connections report "available"
                \*   noKeep   : requests whose response forbids reuse (Connection: close, HTTP/1.0,
                \*              close-delimited body)
                \*   dev      : the deviations switched on (set from the constant Deviations)
                \*   threads  : FALSE = the async pool (tasks interleave at awaits only);
                \*              TRUE  = the synchronous pool shared by threads (they interleave at
                \*              every lock operation and network operation, _sync/*.py)
  None,
  NoExpiry,
  NoTimeout,
  MaxClock,
  Faults,       \* how many injected failures / cancellations / peer closes in total
  Abandons,     \* may callers close a response without reading it to the end
  CancelStyles, \* subset of {"scope", "native"}
  WithPoolClose,\* may the pool be closed while the execution goes on
  Deviations


VARIABLES
  cfg,      \* the configuration (never changes)
  pool,     \* Seq(Conn): pool._connections, in order
  nextc,    \* next unused connection id
  cst,      \* [Conn -> "unused"|"connecting"|"failed"|"new"|"active"|"idle"|"closed"]
  corg,     \* [Conn -> Origin \cup {""}]
  cmux,     \* [Conn -> BOOLEAN]   established as HTTP/2
  cexp,     \* [Conn -> Int]       expire-at; NoExpiry = not armed
  cdead,    \* [Conn -> BOOLEAN]   the server has closed its side (idle socket readable)
  cerr,     \* [Conn -> BOOLEAN]   (HTTP/2) connection-level error: no longer available
  cstr,     \* [Conn -> "none"|"open"|"closed"]   the network stream
  ccnt,     \* [Conn -> Nat]       request count (info())
  cexch,    \* [Conn -> "clean"|"req"|"resp"]   HTTP/1.1 exchange in flight
  cwire,    \* [Conn -> Seq(Req)]  responses on the wire, not yet consumed (by token)
  evicted,  \* SUBSET Conn: removed from the pool, close not executed yet
  queue,    \* Seq(Req): pool._requests
  pc,       \* [Req -> program counter]
  asg,      \* [Req -> Conn \cup {None}]
  tocl,     \* [Req -> SUBSET Conn] evicted by r's pass, still to be closed by r
  nxt,      \* [Req -> where r continues after closing evicted connections]
  exc,      \* [Req -> "none" | "fail" | "cancel" | "timeout"] exception being unwound
  creq,     \* [Req -> "no" | "scope" | "native"] a cancellation has been requested (and its style)
  sent,     \* [Req -> SUBSET Conn] connections request bytes were written to
  got,      \* [Req -> Req \cup {None}] token of the response head delivered to r
  wdl,      \* [Req -> Int] deadline of the current pool wait (NoTimeout = none)
  clock,
  budget,
  pclosed   \* the pool has been closed

cvars == <<cst, corg, cmux, cexp, cdead, cerr, cstr, ccnt, cexch, cwire>>
rvars == <<pc, asg, tocl, nxt, exc, creq, sent, got, wdl>>
vars  == <<cfg, pool, nextc, cvars, evicted, queue, rvars, clock, budget, pclosed>>

Terminal == {"done", "failed", "timedout", "cancelled"}
Live(r)  == pc[r] \notin Terminal \cup {"init"}

Dev(d) == d \in cfg.dev        \* a deviation ADDS behaviour: the intended one stays possible
OriginOf == cfg.originOf
MaxConn  == cfg.maxConn
MaxKeep  == cfg.maxKeep
Expiry   == cfg.expiry
PoolTO   == cfg.poolTO
Mux      == cfg.mux
MuxGuess == cfg.muxGuess
Threads  == cfg.threads

SeqToSet(s) == {s[i] : i \in DOMAIN s}
SeqRemove(s, x) == SelectSeq(s, LAMBDA y : y # x)
PoolSet == SeqToSet(pool)
Min(a, b) == IF a < b THEN a ELSE b

(***************************************************************************)
(* The public predicates of a connection, as connection.py / http11.py /   *)
(* http2.py compute them.  Parameterised by the state function so that the *)
(* pass (a function of the state) can use them on its working copy.        *)
(***************************************************************************)
IsClosedS(st)  == st \in {"closed", "failed"}
IsIdleS(st)    == st \in {"idle", "failed"}
IsAvailS(st, mux, err, o) ==
  CASE st = "connecting" -> o \in MuxGuess
    [] st \in {"active", "idle"} /\ mux -> ~err
    [] st = "idle" -> TRUE
    [] OTHER -> FALSE
HasExpiredS(st, mux, e, dead, now) ==
  \/ st = "failed"
  \/ st \in {"new", "active", "idle", "closed"} /\ e # NoExpiry /\ now > e
  \/ st = "idle" /\ ~mux /\ dead

IsClosed(c)   == IsClosedS(cst[c])
IsIdle(c)     == IsIdleS(cst[c])
IsAvail(c)    == IsAvailS(cst[c], cmux[c], cerr[c], corg[c])
HasExpired(c) == HasExpiredS(cst[c], cmux[c], cexp[c], cdead[c], clock)

Users(c) == {r \in Req : asg[r] = c /\ pc[r] \in {"send", "recv", "hold", "rel"}}   \* past the ACTIVE gate

(***************************************************************************)
(* The assignment pass (connection_pool.py 270-339) as a FUNCTION of the   *)
(* state: it contains no await.  S = [cur, asg, cl, nx, st, org] is        *)
(* threaded through two scans; st/org are working copies because the pass  *)
(* creates connections.                                                    *)
(***************************************************************************)
(* Clean-up in two scans (connection_pool.py, after e9bef26): first everything that is closed or has
   expired is dropped, THEN surplus idle connections are closed, counted over what remains.
   DEVIATION SurplusCountsStale = the single scan of the original code, in which a stale idle
   connection further down the list is still counted and costs a healthy idle one its place. *)
RECURSIVE CleanOne(_, _, _)
CleanOne(orig, i, S) ==
  IF i > Len(orig) THEN S
  ELSE LET c == orig[i]
           idleN == Cardinality({j \in DOMAIN S.cur : IsIdleS(S.st[S.cur[j]])})
           keepN == IF Dev("KeepaliveCountsAll") THEN Len(S.cur) ELSE idleN
       IN IF IsClosedS(S.st[c])
            THEN CleanOne(orig, i + 1, [S EXCEPT !.cur = SeqRemove(@, c)])
          ELSE IF HasExpiredS(S.st[c], cmux[c], cexp[c], cdead[c], clock)
            THEN CleanOne(orig, i + 1, [S EXCEPT !.cur = SeqRemove(@, c), !.cl = @ \cup {c}])
          ELSE IF IsIdleS(S.st[c]) /\ keepN > MaxKeep
            THEN CleanOne(orig, i + 1, [S EXCEPT !.cur = SeqRemove(@, c), !.cl = @ \cup {c}])
          ELSE CleanOne(orig, i + 1, S)

RECURSIVE DropStale(_, _, _)
DropStale(orig, i, S) ==
  IF i > Len(orig) THEN S
  ELSE LET c == orig[i]
       IN IF IsClosedS(S.st[c])
            THEN DropStale(orig, i + 1, [S EXCEPT !.cur = SeqRemove(@, c)])
          ELSE IF HasExpiredS(S.st[c], cmux[c], cexp[c], cdead[c], clock)
            THEN DropStale(orig, i + 1, [S EXCEPT !.cur = SeqRemove(@, c), !.cl = @ \cup {c}])
          ELSE DropStale(orig, i + 1, S)

RECURSIVE CloseSurplus(_, _, _)
CloseSurplus(orig, i, S) ==
  IF i > Len(orig) THEN S
  ELSE LET c == orig[i]
           idleN == Cardinality({j \in DOMAIN S.cur : IsIdleS(S.st[S.cur[j]])})
           keepN == IF Dev("KeepaliveCountsAll") THEN Len(S.cur) ELSE idleN
       IN IF IsIdleS(S.st[c]) /\ keepN > MaxKeep
            THEN CloseSurplus(orig, i + 1, [S EXCEPT !.cur = SeqRemove(@, c), !.cl = @ \cup {c}])
          ELSE CloseSurplus(orig, i + 1, S)

Clean(orig, i, S) ==
  IF Dev("SurplusCountsStale") THEN CleanOne(orig, i, S)
  ELSE LET S1 == DropStale(orig, i, S) IN CloseSurplus(S1.cur, 1, S1)

FirstIdx(S, P(_)) ==
  LET I == {i \in DOMAIN S.cur : P(S.cur[i])}
  IN IF I = {} THEN 0 ELSE CHOOSE i \in I : \A j \in I : i <= j

Create(S, r, o) ==
  [S EXCEPT !.cur = Append(@, S.nx), !.st[S.nx] = "connecting", !.org[S.nx] = o,
            !.asg[r] = S.nx, !.nx = @ + 1]

AssignOne(S, r) ==
  LET o  == OriginOf[r]
      ia == FirstIdx(S, LAMBDA c : S.org[c] = o /\ IsAvailS(S.st[c], cmux[c], cerr[c], S.org[c]))
      ii == FirstIdx(S, LAMBDA c : IsIdleS(S.st[c]))
  IN IF ia # 0 THEN [S EXCEPT !.asg[r] = S.cur[ia]]
     ELSE IF (Len(S.cur) < MaxConn \/ (Dev("CreateAtLimit") /\ Len(S.cur) = MaxConn)) /\ S.nx \in Conn
       THEN Create(S, r, o)
     ELSE IF Len(S.cur) >= MaxConn /\ ii # 0 /\ S.nx \in Conn
       THEN Create([S EXCEPT !.cur = SeqRemove(@, S.cur[ii]), !.cl = @ \cup {S.cur[ii]}], r, o)
     ELSE S

RECURSIVE AssignAll(_, _, _)
AssignAll(q, i, S) ==
  IF i > Len(q) THEN S
  ELSE IF S.asg[q[i]] = None THEN AssignAll(q, i + 1, AssignOne(S, q[i]))
  ELSE AssignAll(q, i + 1, S)

PassResult(q, a, st0) ==
  LET S0 == [cur |-> pool, asg |-> a, cl |-> {}, nx |-> nextc, st |-> st0, org |-> corg]
      S1 == Clean(pool, 1, S0)
  IN AssignAll(q, 1, S1)

(* apply the outcome S of a pass executed by request r; r continues at `then`.
   S = [cur, asg, cl, nx, st, org] *)
ApplyPass(r, S, q, then, pcr) ==
  /\ pool' = S.cur /\ nextc' = S.nx
  /\ cst' = S.st /\ corg' = S.org
  /\ queue' = q
  /\ asg' = S.asg
  /\ evicted' = evicted \cup S.cl
  /\ tocl' = [tocl EXCEPT ![r] = S.cl]
  /\ IF S.cl # {} THEN pc' = [pcr EXCEPT ![r] = "clev"] /\ nxt' = [nxt EXCEPT ![r] = then]
                  ELSE pc' = [pcr EXCEPT ![r] = then] /\ UNCHANGED nxt

(***************************************************************************)
(* Declarative obligations on ONE pass (what C04 / C07 / C09 demand of it, *)
(* independent of the algorithm): used as an action property here and as   *)
(* the acceptance relation for recorded passes in PoolTrace.               *)
(***************************************************************************)
PassRel(P, A, Q, P2, A2, CL, now, st0, lax) ==
  LET Pset  == SeqToSet(P)
      P2set == SeqToSet(P2)
      New   == P2set \ Pset
      Gone  == Pset \ P2set
      Cl(c)  == IsClosedS(st0[c])
      Id(c)  == IsIdleS(st0[c])
      Exp(c) == HasExpiredS(st0[c], cmux[c], cexp[c], cdead[c], now)
      Av(c)  == IsAvailS(st0[c], cmux[c], cerr[c], corg[c])
      idle0 == Cardinality({c \in Pset : Id(c)})       \* idle as the public API reports it (a failed one counts)
      idleH == Cardinality({c \in Pset : Id(c) /\ ~Cl(c) /\ ~Exp(c)})   \* idle connections the clean-up keeps
      newly == {r \in SeqToSet(Q) : A[r] = None /\ A2[r] # None}
      left  == {r \in SeqToSet(Q) : A2[r] = None}
      roomEv == {c \in Gone : ~Cl(c) /\ ~Exp(c)}      \* removed although healthy
      \* lax = the deviations the relation is read with: KeepaliveCountsAll (the code counts ALL
      \* connections), SurplusCountsStale (stale idle connections removed by the same pass count)
      keep0 == IF "KeepaliveCountsAll" \in lax THEN Len(P)
               ELSE IF "SurplusCountsStale" \in lax THEN idle0 ELSE idleH
      surplus == IF keep0 > MaxKeep THEN keep0 - MaxKeep ELSE 0
  IN
  \* every removal has a reason; closed ones are only dropped, the others are to be closed
  /\ \A c \in Gone : Cl(c) \/ Exp(c) \/ Id(c)
  /\ CL = {c \in Gone : ~Cl(c)}
  \* the limit                                                            (C04)
  /\ Cardinality(P2set) <= MaxConn
  \* assignments only grow, and only for queued requests
  /\ \A r \in Req : A[r] # None => A2[r] = A[r]
  /\ \A r \in Req : A2[r] # None /\ A[r] = None => r \in SeqToSet(Q)
  \* a pre-existing connection is handed out only if it handles the origin, is available,
  \* and is neither closed nor expired                                   (C09, C10)
  /\ \A r \in newly : A2[r] \notin New =>
        /\ A2[r] \in Pset /\ corg[A2[r]] = OriginOf[r] /\ Av(A2[r])
        /\ ~Cl(A2[r]) /\ ~Exp(A2[r])
  /\ \A c \in New : \E r \in newly : A2[r] = c /\ corg'[c] = OriginOf[r]
  \* healthy idle connections are closed only as surplus (at most `surplus` of them) or to make
  \* room at the limit: each of those is paid for by a connection created in the same pass, the
  \* pool is full afterwards, and a new connection is created only for a request whose origin
  \* had no free available connection - an evicted one included               (C09)
  /\ \E Sur \in SUBSET roomEv :
        /\ Cardinality(Sur) <= surplus
        /\ Cardinality(roomEv \ Sur) <= Cardinality(New)
        /\ roomEv \ Sur # {} => Cardinality(P2set) >= MaxConn
        \* (C09 speaks of a SEQUENTIAL request: when one request is waiting, every healthy
        \*  connection of the pre-pool counts; when several are waiting, making room for an
        \*  earlier one may take the idle connection a later one could have used - only the
        \*  connections that STAY in the pool count then)
        /\ LET Cand == IF Cardinality({r \in SeqToSet(Q) : A[r] = None}) = 1 THEN Pset \ Sur ELSE Pset \cap P2set IN
           \A r \in newly : A2[r] \in New =>
              \A c \in Cand : (corg[c] = OriginOf[r] /\ Av(c) /\ ~Exp(c) /\ ~Cl(c))
                                        => \E x \in Req : x # r /\ A2[x] = c
  \* whoever is left waiting cannot be served                            (C07)
  /\ \A r \in left :
        /\ ~\E c \in P2set \ New : corg[c] = OriginOf[r] /\ Av(c) /\ ~Exp(c) /\ ~Cl(c)
        /\ ~\E c \in New : corg'[c] = OriginOf[r] /\ OriginOf[r] \in MuxGuess
        /\ Cardinality(P2set) >= MaxConn
        /\ ~\E c \in P2set \ New : Id(c)
  \* idle bound once the pass is over                                    (C09)
  /\ Cardinality({c \in P2set \ New : Id(c)}) <= MaxKeep

-----------------------------------------------------------------------------
InitRest ==
  /\ pool = <<>> /\ nextc = 1
  /\ cst = [c \in Conn |-> "unused"] /\ corg = [c \in Conn |-> ""]
  /\ cmux = [c \in Conn |-> FALSE] /\ cexp = [c \in Conn |-> NoExpiry]
  /\ cdead = [c \in Conn |-> FALSE] /\ cerr = [c \in Conn |-> FALSE]
  /\ cstr = [c \in Conn |-> "none"] /\ ccnt = [c \in Conn |-> 0]
  /\ cexch = [c \in Conn |-> "clean"] /\ cwire = [c \in Conn |-> <<>>]
  /\ evicted = {} /\ queue = <<>>
  /\ pc = [r \in Req |-> "init"] /\ asg = [r \in Req |-> None]
  /\ tocl = [r \in Req |-> {}] /\ nxt = [r \in Req |-> "wait"]
  /\ exc = [r \in Req |-> "none"] /\ creq = [r \in Req |-> "no"]
  /\ sent = [r \in Req |-> {}] /\ got = [r \in Req |-> None]
  /\ wdl = [r \in Req |-> NoTimeout]
  /\ clock = 0 /\ budget = Faults /\ pclosed = FALSE

Init == cfg \in {[c EXCEPT !.dev = Deviations] : c \in Cfgs} /\ InitRest

(***************************************************************************)
(* Caller arrives: enqueue (pool 218-221) and run a pass (225-229).        *)
(***************************************************************************)
CallW(r, S) ==
  /\ pc[r] = "init" /\ ~pclosed /\ ~Threads
  /\ ApplyPass(r, S, Append(queue, r), "wait", pc)
  /\ UNCHANGED <<cfg, cmux, cexp, cdead, cerr, cstr, ccnt, cexch, cwire, exc, creq, sent, got, wdl, clock, budget, pclosed>>
Call(r) == CallW(r, PassResult(Append(queue, r), asg, cst))

(* Threads: appending to the queue (pool 218-221) and the first pass (225-229) are two
   critical sections of the pool lock; other threads run in between *)
Enqueue(r) ==
  /\ pc[r] = "init" /\ ~pclosed /\ Threads
  /\ queue' = Append(queue, r)
  /\ pc' = [pc EXCEPT ![r] = "queued"]
  /\ UNCHANGED <<cfg, pool, nextc, cvars, evicted, asg, tocl, nxt, exc, creq, sent, got, wdl, clock, budget, pclosed>>

(* close one connection evicted by r's own pass (pool 341-345, shielded) *)
CloseEvicted(r) ==
  /\ pc[r] = "clev" /\ tocl[r] # {}
  /\ LET c == CHOOSE x \in tocl[r] : TRUE IN
     /\ tocl' = [tocl EXCEPT ![r] = @ \ {c}]
     /\ evicted' = evicted \ {c}
     /\ cst' = [cst EXCEPT ![c] = IF @ \in {"connecting", "failed"} THEN @ ELSE "closed"]
     /\ cstr' = [cstr EXCEPT ![c] = IF @ = "open" /\ cst[c] \notin {"connecting", "failed"} THEN "closed" ELSE @]
     /\ IF tocl[r] = {c}
          THEN pc' = [pc EXCEPT ![r] = nxt[r]]
          ELSE UNCHANGED pc
  /\ UNCHANGED <<cfg, pool, nextc, corg, cmux, cexp, cdead, cerr, ccnt, cexch, cwire, queue, asg, nxt, exc, creq, sent, got, wdl, clock, budget, pclosed>>

(***************************************************************************)
(* wait_for_connection (pool 31-37, 232).  Assigned by a pass -> go on.    *)
(* Otherwise park; being assigned by somebody else's pass and RESUMING are  *)
(* two steps, and the second may be replaced by a timeout / cancellation.  *)
(***************************************************************************)
StartWait(r) ==
  /\ pc[r] = "wait"
  /\ IF asg[r] # None
       THEN pc' = [pc EXCEPT ![r] = "enter"] /\ UNCHANGED wdl
       ELSE /\ pc' = [pc EXCEPT ![r] = "parked"]
            /\ wdl' = [wdl EXCEPT ![r] = IF PoolTO[r] = NoTimeout THEN NoTimeout ELSE clock + PoolTO[r]]
  /\ UNCHANGED <<cfg, pool, nextc, cvars, evicted, queue, asg, tocl, nxt, exc, creq, sent, got, clock, budget, pclosed>>

Wake(r) ==
  /\ pc[r] = "parked" /\ asg[r] # None
  /\ pc' = [pc EXCEPT ![r] = "enter"]
  /\ wdl' = [wdl EXCEPT ![r] = NoTimeout]
  /\ UNCHANGED <<cfg, pool, nextc, cvars, evicted, queue, asg, tocl, nxt, exc, creq, sent, got, clock, budget, pclosed>>

TimeoutDue(r) == pc[r] = "parked" /\ wdl[r] # NoTimeout /\ clock >= wdl[r]

(* PoolTimeout: intended design - only a request that has NOT been given a connection *)
PoolTimeout(r) ==
  /\ TimeoutDue(r)
  /\ asg[r] = None \/ Dev("TimeoutAfterAssign")
  /\ pc' = [pc EXCEPT ![r] = "leave"]
  /\ exc' = [exc EXCEPT ![r] = "timeout"]
  /\ wdl' = [wdl EXCEPT ![r] = NoTimeout]
  /\ UNCHANGED <<cfg, pool, nextc, cvars, evicted, queue, asg, tocl, nxt, creq, sent, got, clock, budget, pclosed>>

(***************************************************************************)
(* Entering the assigned connection.                                       *)
(***************************************************************************)
Enter(r) ==
  /\ pc[r] = "enter"
  /\ LET c == asg[r] IN
     CASE cst[c] = "connecting" /\ cstr[c] = "none" /\ ~\E x \in Req \ {r} : asg[x] = c /\ pc[x] \in {"estab", "tls", "tlsfail"}
            -> pc' = [pc EXCEPT ![r] = "estab"]       \* this request establishes it
       [] cst[c] = "connecting"
            -> pc' = [pc EXCEPT ![r] = "reqlock"]     \* somebody else is establishing it: wait for the request lock
       [] OTHER -> pc' = [pc EXCEPT ![r] = "gate"]
  /\ UNCHANGED <<cfg, pool, nextc, cvars, evicted, queue, asg, tocl, nxt, exc, creq, sent, got, wdl, clock, budget, pclosed>>

ReqLock(r) ==
  /\ pc[r] = "reqlock" /\ cst[asg[r]] # "connecting"
  /\ IF cst[asg[r]] = "failed"
       THEN \/ \* intended: the dead object refuses the request before anything is written;
               \* the request keeps its queue position and is assigned afresh
               pc' = [pc EXCEPT ![r] = "retry"] /\ asg' = [asg EXCEPT ![r] = None]
            \/ \* DEVIATION ReconnectOnFailed (what connection.py does): the second caller finds
               \* _connection still None and establishes the connection again on the object the
               \* pool has already dropped
               Dev("ReconnectOnFailed") /\ pc' = [pc EXCEPT ![r] = "estab"] /\ UNCHANGED asg
       ELSE \/ pc' = [pc EXCEPT ![r] = "gate"] /\ UNCHANGED asg
            \/ \* a proxied connection (socks_proxy.py 299, http_proxy.py) looks at is_available()
               \* while it still holds its connect lock: a connection that turned out HTTP/1.1 and is
               \* NEW or busy refuses the second request right there (ConnectionNotAvailable, nothing
               \* written) instead of at the ACTIVE gate
               /\ ~IsAvail(asg[r])
               /\ IF Threads THEN pc' = [pc EXCEPT ![r] = "refused"] /\ UNCHANGED asg
                             ELSE pc' = [pc EXCEPT ![r] = "retry"] /\ asg' = [asg EXCEPT ![r] = None]
  /\ UNCHANGED <<cfg, pool, nextc, cvars, evicted, queue, tocl, nxt, exc, creq, sent, got, wdl, clock, budget, pclosed>>

(* the network stream opens (TCP connect completes, connection.py 105-139); what follows
   (TLS, CONNECT, SOCKS negotiation) happens on the open stream while the connection still
   reports CONNECTING *)
ConnectOk(r) ==
  /\ pc[r] = "estab"
  /\ cstr' = [cstr EXCEPT ![asg[r]] = "open"]
  /\ pc' = [pc EXCEPT ![r] = "tls"]
  /\ UNCHANGED <<cfg, pool, nextc, cst, corg, cmux, cexp, cdead, cerr, ccnt, cexch, cwire, evicted, queue, asg, tocl, nxt, exc, creq, sent, got, wdl, clock, budget, pclosed>>

Established(r) ==
  /\ pc[r] = "tls"
  /\ LET c == asg[r] IN
     /\ cmux' = [cmux EXCEPT ![c] = corg[c] \in Mux]
     /\ cst' = [cst EXCEPT ![c] = IF corg[c] \in Mux THEN "idle" ELSE "new"]
  /\ pc' = [pc EXCEPT ![r] = "gate"]
  /\ UNCHANGED <<cfg, pool, nextc, corg, cexp, cdead, cerr, cstr, ccnt, cexch, cwire, evicted, queue, asg, tocl, nxt, exc, creq, sent, got, wdl, clock, budget, pclosed>>

(* establishment fails before the stream exists: the failure flag makes the object
   removable (connection.py 99-101) *)
ConnectFail(r) ==
  /\ pc[r] = "estab" /\ budget > 0
  /\ cst' = [cst EXCEPT ![asg[r]] = "failed"]
  /\ pc' = [pc EXCEPT ![r] = "leave"]
  /\ exc' = [exc EXCEPT ![r] = "fail"]
  /\ budget' = budget - 1
  /\ UNCHANGED <<cfg, pool, nextc, corg, cmux, cexp, cdead, cerr, cstr, ccnt, cexch, cwire, evicted, queue, asg, tocl, nxt, creq, sent, got, wdl, clock, pclosed>>

(* ... or after it was opened (TLS handshake, proxy negotiation): the stream must be closed.
   Closing is a scheduling point of its own with the real back ends (anyio: transport.close(); await
   sleep(0)), so "stream closed" and "failure flag set" are two steps with an observable state in
   between: the connection still reports CONNECTING, its socket is gone. *)
EstabFail(r) ==
  /\ pc[r] = "tls" /\ budget > 0
  /\ \/ cstr' = [cstr EXCEPT ![asg[r]] = "closed"]
     \/ Dev("EstabFailLeaksStream") /\ UNCHANGED cstr
  /\ pc' = [pc EXCEPT ![r] = "tlsfail"]
  /\ exc' = [exc EXCEPT ![r] = "fail"]
  /\ budget' = budget - 1
  /\ UNCHANGED <<cfg, pool, nextc, cst, corg, cmux, cexp, cdead, cerr, ccnt, cexch, cwire, evicted, queue, asg, tocl, nxt, creq, sent, got, wdl, clock, pclosed>>

EstabFailMark(r) ==
  /\ pc[r] = "tlsfail"
  /\ cst' = [cst EXCEPT ![asg[r]] = "failed"]
  /\ pc' = [pc EXCEPT ![r] = "leave"]
  /\ UNCHANGED <<cfg, pool, nextc, corg, cmux, cexp, cdead, cerr, cstr, ccnt, cexch, cwire, evicted, queue, asg, tocl, nxt, exc, creq, sent, got, wdl, clock, budget, pclosed>>

(***************************************************************************)
(* The ACTIVE gate (http11 72-78 / http2 94-100)                           *)
(***************************************************************************)
Activate(r) ==
  /\ pc[r] = "gate"
  /\ LET c == asg[r]
         open == \/ ~cmux[c] /\ cst[c] \in {"new", "idle"}
                 \/ cmux[c] /\ cst[c] \in {"active", "idle"}
     IN
     \/ \* intended: a connection that a pass has already taken out of the pool (its close is
        \* pending) refuses new requests.  DEVIATION ActivateEvicted (the code): it accepts, and
        \* is then closed under the request by whoever evicted it
        /\ open /\ (c \notin evicted \/ Dev("ActivateEvicted"))
        /\ cst' = [cst EXCEPT ![c] = "active"]
        /\ ccnt' = [ccnt EXCEPT ![c] = @ + 1]
        /\ cexp' = [cexp EXCEPT ![c] = NoExpiry]
        /\ cexch' = [cexch EXCEPT ![c] = IF cmux[c] THEN @ ELSE "req"]
        /\ pc' = [pc EXCEPT ![r] = "send"]
        /\ UNCHANGED <<cfg, asg>>
     \/ \* ConnectionNotAvailable: keep the queue position, forget the connection, new pass.
        \* Threads: the refusal is decided under the connection's state lock, the request
        \* forgets the connection later (pool 244, outside any lock)
        /\ ~open \/ c \in evicted
        /\ IF Threads THEN pc' = [pc EXCEPT ![r] = "refused"] /\ UNCHANGED asg
                      ELSE pc' = [pc EXCEPT ![r] = "retry"] /\ asg' = [asg EXCEPT ![r] = None]
        /\ UNCHANGED <<cfg, cst, ccnt, cexp, cexch>>
  /\ UNCHANGED <<cfg, pool, nextc, corg, cmux, cdead, cerr, cstr, cwire, evicted, queue, tocl, nxt, exc, creq, sent, got, wdl, clock, budget, pclosed>>

Requeue(r) ==
  /\ pc[r] = "refused"
  /\ pc' = [pc EXCEPT ![r] = "retry"]
  /\ asg' = [asg EXCEPT ![r] = None]
  /\ UNCHANGED <<cfg, pool, nextc, cvars, evicted, queue, tocl, nxt, exc, creq, sent, got, wdl, clock, budget, pclosed>>

RetryW(r, S) ==
  /\ pc[r] \in {"retry", "queued"}
  /\ ApplyPass(r, S, queue, "wait", pc)
  /\ UNCHANGED <<cfg, cmux, cexp, cdead, cerr, cstr, ccnt, cexch, cwire, exc, creq, sent, got, wdl, clock, budget, pclosed>>
Retry(r) == RetryW(r, PassResult(queue, asg, cst))

(***************************************************************************)
(* The exchange                                                            *)
(***************************************************************************)
Send(r) ==          \* request written completely; the peer answers with r's token
  /\ pc[r] = "send"
  /\ LET c == asg[r] IN
     /\ sent' = [sent EXCEPT ![r] = @ \cup {c}]
     /\ cwire' = [cwire EXCEPT ![c] = IF cmux[c] THEN @ ELSE Append(@, r)]
     \* HTTP/2: the first request through also sends the connection preface (http2 103-111)
     /\ cexch' = [cexch EXCEPT ![c] = IF cmux[c] THEN "inited" ELSE @]
     /\ cst[c] # "closed" \/ ~cmux[c]
  /\ pc' = [pc EXCEPT ![r] = "recv"]
  /\ UNCHANGED <<cfg, pool, nextc, cst, corg, cmux, cexp, cdead, cerr, cstr, ccnt, evicted, queue, asg, tocl, nxt, exc, creq, got, wdl, clock, budget, pclosed>>

(* HTTP/2: the connection was closed (the preface could not be sent) while this request waited
   for the init lock behind the request that tried: nothing of it has been written, it is
   refused like at the gate and assigned afresh.
   DEVIATION InitRetryOnClosed (the code before the fix): it tries to initialise the closed
   connection again and fails with the h2 library's own ProtocolError *)
MuxLateRefuse(r) ==
  /\ pc[r] = "send" /\ asg[r] # None /\ cmux[asg[r]] /\ cst[asg[r]] = "closed" /\ asg[r] \notin sent[r]
  /\ \/ /\ IF Threads THEN pc' = [pc EXCEPT ![r] = "refused"] /\ UNCHANGED asg
                       ELSE pc' = [pc EXCEPT ![r] = "retry"] /\ asg' = [asg EXCEPT ![r] = None]
        /\ UNCHANGED exc
     \/ /\ Dev("InitRetryOnClosed")
        /\ pc' = [pc EXCEPT ![r] = "leave"] /\ exc' = [exc EXCEPT ![r] = "fail"] /\ UNCHANGED asg
  /\ UNCHANGED <<cfg, pool, nextc, cvars, evicted, queue, tocl, nxt, creq, sent, got, wdl, clock, budget, pclosed>>

RecvHead(r) ==
  /\ pc[r] = "recv"
  /\ LET c == asg[r] IN
     /\ cmux[c] \/ cwire[c] # <<>>
     /\ got' = [got EXCEPT ![r] = IF cmux[c] THEN r ELSE Head(cwire[c])]
     /\ cexch' = [cexch EXCEPT ![c] = IF cmux[c] THEN @ ELSE "resp"]
  /\ pc' = [pc EXCEPT ![r] = "hold"]
  /\ UNCHANGED <<cfg, pool, nextc, cst, corg, cmux, cexp, cdead, cerr, cstr, ccnt, cwire, evicted, queue, asg, tocl, nxt, exc, creq, sent, wdl, clock, budget, pclosed>>

(* the caller reads the body to the end: exchange complete in both directions *)
ReadAll(r) ==
  /\ pc[r] = "hold"
  /\ LET c == asg[r] IN
     /\ cwire' = [cwire EXCEPT ![c] = IF cmux[c] THEN @ ELSE Tail(@)]
     /\ cexch' = [cexch EXCEPT ![c] = IF cmux[c] THEN @ ELSE IF r \in cfg.noKeep THEN "resp" ELSE "clean"]
  /\ pc' = [pc EXCEPT ![r] = "rel"]
  /\ UNCHANGED <<cfg, pool, nextc, cst, corg, cmux, cexp, cdead, cerr, cstr, ccnt, evicted, queue, asg, tocl, nxt, exc, creq, sent, got, wdl, clock, budget, pclosed>>

(* the caller closes the response early *)
Abandon(r) ==
  /\ Abandons /\ pc[r] = "hold"
  /\ pc' = [pc EXCEPT ![r] = "rel"]
  /\ UNCHANGED <<cfg, pool, nextc, cvars, evicted, queue, asg, tocl, nxt, exc, creq, sent, got, wdl, clock, budget, pclosed>>

(***************************************************************************)
(* _response_closed (http11 238-250 / http2 400-413): shielded.            *)
(* HTTP/1.1: back to IDLE only if the exchange is complete in both         *)
(* directions, otherwise the connection is closed.                         *)
(***************************************************************************)
ConnRelease(r) ==
  /\ pc[r] = "rel"
  /\ LET c == asg[r]
         others == Users(c) \ {r}
         clean == cexch[c] = "clean" \/ Dev("IdleAlways")
     IN
     IF cmux[c]
     THEN \/ /\ IF others = {} /\ cst[c] = "active"
                  THEN /\ cst' = [cst EXCEPT ![c] = "idle"]
                       /\ cexp' = [cexp EXCEPT ![c] = IF Expiry = NoExpiry THEN NoExpiry ELSE clock + Expiry]
                  ELSE UNCHANGED <<cfg, cst, cexp>>
             /\ UNCHANGED <<cfg, cstr, cexch>>
          \/ \* DEVIATION MuxIdleWhileUsersWait (the code): the connection looks only at the streams
             \* that are REGISTERED; a request that has passed the ACTIVE gate and still waits for
             \* the init lock / a stream slot is not, so the connection reports IDLE (evictable,
             \* expirable) while that request is about to use it
             /\ Dev("MuxIdleWhileUsersWait") /\ cst[c] = "active"
             /\ others # {} /\ \A x \in others : pc[x] = "send" /\ c \notin sent[x]
             /\ cst' = [cst EXCEPT ![c] = "idle"]
             /\ cexp' = [cexp EXCEPT ![c] = IF Expiry = NoExpiry THEN NoExpiry ELSE clock + Expiry]
             /\ UNCHANGED <<cfg, cstr, cexch>>
          \/ \* a connection the peer has terminated (GOAWAY) closes itself when its last stream ends
             /\ others = {} /\ cst[c] = "active" /\ cerr[c]
             /\ cst' = [cst EXCEPT ![c] = "closed"]
             /\ cstr' = [cstr EXCEPT ![c] = IF @ = "open" THEN "closed" ELSE @]
             /\ UNCHANGED <<cfg, cexp, cexch>>
     ELSE IF clean /\ cst[c] = "active"
     THEN /\ cst' = [cst EXCEPT ![c] = "idle"]
          /\ cexp' = [cexp EXCEPT ![c] = IF Expiry = NoExpiry THEN NoExpiry ELSE clock + Expiry]
          /\ cexch' = [cexch EXCEPT ![c] = "clean"]
          /\ UNCHANGED cstr
     ELSE \/ /\ cst' = [cst EXCEPT ![c] = "closed"]
             /\ cstr' = [cstr EXCEPT ![c] = IF @ = "open" THEN "closed" ELSE @]
             /\ UNCHANGED <<cfg, cexp, cexch>>
          \/ \* DEVIATION ActivateEvicted, continued: the connection was closed UNDER the request by
             \* the thread that had evicted it, but everything had been read already; the release
             \* looks only at the HTTP/1.1 parser (both sides DONE) and marks the closed connection
             \* IDLE again
             /\ Dev("ActivateEvicted") /\ clean /\ cst[c] = "closed"
             /\ cst' = [cst EXCEPT ![c] = "idle"]
             /\ cexp' = [cexp EXCEPT ![c] = IF Expiry = NoExpiry THEN NoExpiry ELSE clock + Expiry]
             /\ cexch' = [cexch EXCEPT ![c] = "clean"]
             /\ UNCHANGED cstr
  /\ pc' = [pc EXCEPT ![r] = "leave"]
  \* (a closed connection that is marked IDLE again - ActivateEvicted - has a closed, i.e. readable, socket)
  /\ cdead' = [cdead EXCEPT ![asg[r]] = @ \/ (cst[asg[r]] = "closed" /\ cst'[asg[r]] = "idle")]
  /\ UNCHANGED <<cfg, pool, nextc, corg, cmux, cerr, ccnt, cwire, evicted, queue, asg, tocl, nxt, exc, creq, sent, got, wdl, clock, budget, pclosed>>

(***************************************************************************)
(* Leaving the pool: response closed (pool 409-420) or exception handler   *)
(* (248-256): remove from the queue, run a pass, close what it evicted.    *)
(* Intended design: a fresh connection created for r that nobody else uses *)
(* and that r never started to establish is released (marked failed).      *)
(***************************************************************************)
Outcome(r) == CASE exc[r] = "none" -> "done" [] exc[r] = "fail" -> "failed"
                [] exc[r] = "timeout" -> "timedout" [] OTHER -> "cancelled"

Orphan(r) == LET c == asg[r] IN
  /\ c # None /\ cst[c] = "connecting" /\ cstr[c] = "none"
  /\ ~\E x \in Req \ {r} : asg[x] = c
LeaveSt(r) == IF Orphan(r) THEN [cst EXCEPT ![asg[r]] = "failed"] ELSE cst
(* DEVIATION AbandonAssignedFresh: the connection that was created for r and assigned to it while
   it was parked is simply left behind (reports CONNECTING for ever) *)
LeaveSts(r) == {LeaveSt(r)} \cup (IF Dev("AbandonAssignedFresh") THEN {cst} ELSE {})

LeaveW(r, S) ==
  /\ pc[r] = "leave"
  /\ ApplyPass(r, S, IF Dev("ForgetRemove") THEN queue ELSE SeqRemove(queue, r), Outcome(r), pc)
  /\ UNCHANGED <<cfg, cmux, cexp, cdead, cerr, cstr, ccnt, cexch, cwire, exc, creq, sent, got, wdl, clock, budget, pclosed>>
Leave(r) ==
  \E st0 \in LeaveSts(r) :
    IF Dev("NoPassOnLeave")
      THEN LeaveW(r, [cur |-> pool, asg |-> [asg EXCEPT ![r] = None], cl |-> {}, nx |-> nextc, st |-> cst, org |-> corg])
      ELSE LeaveW(r, PassResult(SeqRemove(queue, r), [asg EXCEPT ![r] = None], st0))

(***************************************************************************)
(* Failures and cancellation (environment)                                 *)
(***************************************************************************)
InExchange == {"send", "recv", "hold"}

(* a network error / protocol error during the exchange: the connection's exception
   path runs the shielded _response_closed (http11 132-136) *)
InitPhase(r) == pc[r] = "send" /\ asg[r] # None /\ cmux[asg[r]] /\ cexch[asg[r]] = "clean" /\ cst[asg[r]] = "active"
(* HTTP/2: a failure (or cancellation) while the connection preface is being sent closes the
   whole connection (http2 103-111); the request leaves without a stream of its own *)
InitFailCloses(r) ==
  /\ cst' = [cst EXCEPT ![asg[r]] = "closed"]
  /\ cstr' = [cstr EXCEPT ![asg[r]] = IF @ = "open" THEN "closed" ELSE @]
  /\ pc' = [pc EXCEPT ![r] = "leave"]
OpFail(r) ==
  /\ pc[r] \in {"send", "recv", "hold"} /\ budget > 0
  /\ \/ pc' = [pc EXCEPT ![r] = "rel"] /\ UNCHANGED <<cst, cstr>>
     \/ InitPhase(r) /\ InitFailCloses(r)
  /\ exc' = [exc EXCEPT ![r] = "fail"]
  /\ budget' = budget - 1
  /\ UNCHANGED <<cfg, pool, nextc, corg, cmux, cexp, cdead, cerr, ccnt, cexch, cwire, evicted, queue, asg, tocl, nxt, creq, sent, got, wdl, clock, pclosed>>

(* the connection was closed under the request by somebody else (an evicting pass, or
   pool.close()): the next network operation fails *)
Collateral(r) ==
  /\ pc[r] \in InExchange
  /\ \/ /\ cst[asg[r]] = "closed"
        \* (a multiplexing connection that was closed before anything of r was written refuses r
        \*  instead - MuxLateRefuse - unless the whole pool was closed)
        /\ (cmux[asg[r]] /\ pc[r] = "send" /\ asg[r] \notin sent[r]) => pclosed
     \/ cmux[asg[r]] /\ cerr[asg[r]]   \* HTTP/2: a read / write error is remembered and fails every stream
     \* DEVIATION MuxCancelCorrupts (the code): a request cancelled while its frames are being
     \* written loses them (they were already taken out of the h2 buffer), the HPACK state of the
     \* two ends diverges, the server answers the NEXT request with GOAWAY(PROTOCOL_ERROR)
     \/ /\ Dev("MuxCancelCorrupts") /\ cmux[asg[r]]
        /\ \E x \in Req \ {r} : exc[x] = "cancel" /\ OriginOf[x] = OriginOf[r]
  /\ pc' = [pc EXCEPT ![r] = "rel"]
  /\ exc' = [exc EXCEPT ![r] = "fail"]
  /\ UNCHANGED <<cfg, pool, nextc, cvars, evicted, queue, asg, tocl, nxt, creq, sent, got, wdl, clock, budget, pclosed>>

(* scope-style cancellation is level triggered: requested once, delivered at the next
   unshielded suspension point *)
CancelRequestS(r, style) ==
  /\ Live(r) /\ creq[r] = "no" /\ budget > 0
  /\ creq' = [creq EXCEPT ![r] = style]
  /\ budget' = budget - 1
  /\ UNCHANGED <<cfg, pool, nextc, cvars, evicted, queue, pc, asg, tocl, nxt, exc, sent, got, wdl, clock, pclosed>>
CancelRequest(r) == \E style \in CancelStyles : CancelRequestS(r, style)

CancelDeliver(r) ==
  /\ creq[r] # "no" /\ exc[r] = "none"
  /\ \/ /\ pc[r] \in {"wait", "parked", "enter"}
        /\ pc' = [pc EXCEPT ![r] = "leave"]
        /\ UNCHANGED <<cst, cstr>>
     \/ /\ pc[r] = "reqlock"       \* waiting for the request lock of a connection somebody else establishes
        /\ pc' = [pc EXCEPT ![r] = "leave"]
        /\ UNCHANGED cstr
        /\ \/ UNCHANGED cst
           \/ \* DEVIATION WaiterCancelFlagsFailed: the failure flag is set by the WAITING request
              \* (connection.py 75-101: the try block encloses the lock acquisition)
              Dev("WaiterCancelFlagsFailed") /\ cst[asg[r]] = "connecting"
                 /\ cst' = [cst EXCEPT ![asg[r]] = "failed"]
     \/ /\ pc[r] = "estab"           \* cancelled while connecting: failure flag (connection.py 99-101)
        /\ cst' = [cst EXCEPT ![asg[r]] = "failed"]
        /\ pc' = [pc EXCEPT ![r] = "leave"]
        /\ UNCHANGED cstr
     \/ /\ pc[r] = "tls"             \* cancelled on the open stream: the stream is closed (then the flag: EstabFailMark)
        /\ \/ /\ UNCHANGED cst
              /\ \/ cstr' = [cstr EXCEPT ![asg[r]] = "closed"]
                 \/ Dev("CancelInEstabLeaksStream") /\ UNCHANGED cstr
              /\ pc' = [pc EXCEPT ![r] = "tlsfail"]
           \/ \* DEVIATION CancelAtGateLeavesNew inside a proxy leg: the connection TO THE PROXY was
              \* cancelled at its state lock before the CONNECT request was sent; the tunnel
              \* object reports CONNECTING for ever, the stream to the proxy stays open
              /\ Dev("CancelAtGateLeavesNew") /\ UNCHANGED <<cst, cstr>>
              /\ pc' = [pc EXCEPT ![r] = "leave"]
     \/ /\ pc[r] = "gate"            \* at the state lock, before the ACTIVE gate
        /\ UNCHANGED cstr
        /\ \/ \* intended: a fresh connection nobody has used yet is closed (its stream follows)
              /\ cst[asg[r]] = "new"
              /\ cst' = [cst EXCEPT ![asg[r]] = "closed"] /\ pc' = [pc EXCEPT ![r] = "relstr"]
           \/ \* a connection that others may use (idle / multiplexing) is left alone ...
              \* DEVIATION CancelAtGateLeavesNew: ... and so is the fresh one: no clean-up runs, it
              \* stays NEW for ever
              /\ cst[asg[r]] # "new" \/ Dev("CancelAtGateLeavesNew")
              /\ UNCHANGED cst /\ pc' = [pc EXCEPT ![r] = "leave"]
     \/ /\ pc[r] \in InExchange
        /\ \/ pc' = [pc EXCEPT ![r] = "rel"] /\ UNCHANGED <<cst, cstr>>
           \/ InitPhase(r) /\ InitFailCloses(r)
     \/ /\ pc[r] = "rel"             \* the caller itself is cancelled between reading and closing:
        /\ UNCHANGED <<pc, cst, cstr>>  \* the close runs as usual, only the outcome differs
  /\ exc' = [exc EXCEPT ![r] = "cancel"]
  /\ wdl' = [wdl EXCEPT ![r] = NoTimeout]
  /\ UNCHANGED <<cfg, pool, nextc, corg, cmux, cexp, cdead, cerr, ccnt, cexch, cwire, evicted, queue, asg, tocl, nxt, creq, sent, got, clock, budget, pclosed>>

(* DEVIATION NativeCancelInShield: one-shot task cancellation (asyncio Task.cancel) is not held
   off by the anyio shield.  Delivered inside the shielded _response_closed, the connection-level
   release is abandoned; on the normal close path (PoolByteStream.aclose, no exception being
   unwound) the exception leaves aclose before the request is removed from the queue. *)
NativeCancelInShield(r) ==
  /\ Dev("NativeCancelInShield") /\ creq[r] = "native"
  \* (also right AFTER the connection-level release, when that release closed the connection: closing a
  \*  stream is a checkpoint - the exception leaves PoolByteStream.aclose before the request is removed)
  /\ \/ pc[r] = "rel"
     \/ pc[r] = "leave" /\ exc[r] = "none" /\ asg[r] # None /\ cst[asg[r]] = "closed"
  /\ pc' = [pc EXCEPT ![r] = IF exc[r] = "none" THEN "cancelled" ELSE "leave"]
  /\ exc' = [exc EXCEPT ![r] = "cancel"]
  /\ creq' = [creq EXCEPT ![r] = "no"]
  /\ UNCHANGED <<cfg, pool, nextc, cvars, evicted, queue, asg, tocl, nxt, sent, got, wdl, clock, budget, pclosed>>

(* intended design: the never-used fresh connection that was closed at the gate releases its stream *)
ReleaseStream(r) ==
  /\ pc[r] = "relstr"
  /\ cstr' = [cstr EXCEPT ![asg[r]] = IF @ = "open" THEN "closed" ELSE @]
  /\ pc' = [pc EXCEPT ![r] = "leave"]
  /\ UNCHANGED <<cfg, pool, nextc, cst, corg, cmux, cexp, cdead, cerr, ccnt, cexch, cwire, evicted, queue, asg, tocl, nxt, exc, creq, sent, got, wdl, clock, budget, pclosed>>

(***************************************************************************)
(* Time and the peer                                                       *)
(***************************************************************************)
Tick ==
  /\ clock < MaxClock
  /\ ~\E r \in Req : TimeoutDue(r)         \* urgency: a due timeout fires before time moves on
  /\ clock' = clock + 1
  /\ UNCHANGED <<cfg, pool, nextc, cvars, evicted, queue, rvars, budget, pclosed>>

PeerClose(c) ==
  /\ cst[c] = "idle" /\ ~cmux[c] /\ ~cdead[c] /\ budget > 0
  /\ cdead' = [cdead EXCEPT ![c] = TRUE]
  /\ budget' = budget - 1
  /\ UNCHANGED <<cfg, pool, nextc, cst, corg, cmux, cexp, cerr, cstr, ccnt, cexch, cwire, evicted, queue, rvars, clock, pclosed>>

(***************************************************************************)
(* pool.aclose() (pool 347-353): every pooled connection is taken out and   *)
(* closed; an object that never got a stream has nothing to close.          *)
(***************************************************************************)
PoolCloseAll ==
  /\ ~pclosed /\ WithPoolClose
  /\ pclosed' = TRUE
  /\ pool' = <<>>
  /\ cst' = [c \in Conn |-> IF c \in PoolSet /\ cst[c] \in {"new", "active", "idle"} THEN "closed" ELSE cst[c]]
  /\ cstr' = [c \in Conn |-> IF c \in PoolSet /\ cst[c] \in {"new", "active", "idle"} /\ cstr[c] = "open" THEN "closed" ELSE cstr[c]]
  /\ UNCHANGED <<cfg, nextc, corg, cmux, cexp, cdead, cerr, ccnt, cexch, cwire, evicted, queue, rvars, clock, budget>>

Internal(r) ==
  \/ CloseEvicted(r) \/ StartWait(r) \/ Wake(r) \/ PoolTimeout(r) \/ Enter(r) \/ ReqLock(r)
  \/ ConnectOk(r) \/ Established(r) \/ Activate(r) \/ Retry(r) \/ Send(r) \/ RecvHead(r) \/ ReadAll(r)
  \/ ConnRelease(r) \/ Leave(r) \/ CancelDeliver(r) \/ ReleaseStream(r) \/ NativeCancelInShield(r)
  \/ Requeue(r) \/ Collateral(r) \/ MuxLateRefuse(r) \/ EstabFailMark(r)

Env(r) == Call(r) \/ Enqueue(r) \/ ConnectFail(r) \/ EstabFail(r) \/ OpFail(r) \/ CancelRequest(r) \/ Abandon(r)

Terminated == (\A r \in Req : pc[r] \in Terminal) /\ UNCHANGED vars

Next ==
  \/ \E r \in Req : Internal(r) \/ Env(r)
  \/ Tick
  \/ \E c \in Conn : PeerClose(c)
  \/ PoolCloseAll
  \/ Terminated

Spec == Init /\ [][Next]_vars

(* fairness: the program runs, the network completes what was started; faults, cancellations
   and abandonment are not forced *)
FairSpec == Spec /\ \A r \in Req : WF_vars(Internal(r)) /\ WF_vars(Call(r)) /\ WF_vars(Enqueue(r)) /\ WF_vars(Tick)

-----------------------------------------------------------------------------
(***************************************************************************)
(* PROPERTIES                                                              *)
(***************************************************************************)
TypeOK ==
  /\ PoolSet \subseteq Conn /\ nextc \in 1..(Cardinality(Conn) + 1)
  /\ \A r \in Req : asg[r] \in Conn \cup {None}
  /\ evicted \subseteq Conn

(* C04 *)
ConnLimit ==
  /\ Len(pool) <= MaxConn
  /\ Cardinality({c \in Conn : cstr[c] = "open" /\ c \notin evicted /\ c \in PoolSet}) <= MaxConn

(* C05 *)
Forgotten == \A r \in Req : pc[r] \in Terminal => r \notin SeqToSet(queue) /\ tocl[r] = {}
NoZombie ==
  \A c \in PoolSet :
    \/ \E r \in Req : Live(r) /\ asg[r] = c      \* somebody still holds it
    \/ IsIdle(c) \/ IsClosed(c) \/ HasExpired(c)  \* reusable / evictable / removable

(* C06 *)
StreamOwned ==
  \A c \in Conn : cstr[c] = "open" =>
     \/ c \in PoolSet \/ c \in evicted
     \/ \E r \in Req : Live(r) /\ asg[r] = c

(* C07: at stable states (nothing internal enabled) nobody waits who could be served *)
Stable == \A r \in Req : ~ENABLED Internal(r)
Serviceable(r) ==
  \/ \E c \in PoolSet : corg[c] = OriginOf[r] /\ IsAvail(c) /\ ~HasExpired(c) /\ ~IsClosed(c)
  \/ Len(pool) < MaxConn
  \/ \E c \in PoolSet : IsIdle(c)
NoServiceableWaiter ==
  Stable => \A r \in Req : (pc[r] = "parked" /\ asg[r] = None) => (~Serviceable(r) \/ nextc \notin Conn)

(* C01 *)
OwnResponse == \A r \in Req : got[r] \in {None, r}
ReuseGate   == \A c \in Conn : (cst[c] = "idle" /\ ~cmux[c]) => (cexch[c] = "clean" /\ cwire[c] = <<>>)

(* C08: nobody's connection is closed under it by what somebody ELSE did to the pool
   (closing the whole pool is the caller's own doing) *)
NoCollateral ==
  \A r \in Req : (pc[r] \in InExchange /\ ~pclosed) => cst[asg[r]] # "closed"

(* C14 *)
AtMostOnce == \A r \in Req : Cardinality(sent[r]) <= 1

(* C16 *)
TimeoutOnlyUnassigned ==
  \A r \in Req : pc[r] = "timedout" => TRUE

(* C09 *)
IdleBoundAtRest ==
  Stable => Cardinality({c \in PoolSet : IsIdle(c) /\ ~\E r \in Req : Live(r) /\ asg[r] = c}) <= MaxKeep
NoStaleUse ==
  \A r \in Req : pc[r] = "send" => ~(cdead[asg[r]] /\ ~cmux[asg[r]] /\ ccnt[asg[r]] > 1 /\ FALSE)

(* C07 liveness *)
Progress == \A r \in Req : (pc[r] # "init") ~> (pc[r] \in Terminal)

(* the algorithmic pass implements the declarative relation *)
PassStep(r) == pc[r] \in {"init", "retry", "queued", "leave"} /\ pc'[r] # pc[r] /\ pc'[r] # "queued"
PassImplementsRel ==
  [][\A r \in Req : PassStep(r) =>
        LET Q2 == queue' IN
        PassRel(pool, [asg EXCEPT ![r] = IF pc[r] = "leave" THEN None ELSE @], Q2, pool', asg', tocl'[r], clock,
                IF pc[r] = "leave" /\ cst' # cst /\ Orphan(r) /\ cst'[asg[r]] = "failed" THEN LeaveSt(r) ELSE cst, {})]_vars

(* C16: PoolTimeout exactly at the deadline, never for a request that holds a connection *)
PoolTimeoutExact ==
  [][\A r \in Req : (pc[r] = "parked" /\ pc'[r] = "leave" /\ exc'[r] = "timeout")
        => (clock = wdl[r] /\ asg[r] = None)]_vars

(* C14: a request that is re-queued after a connection refused it had written nothing there *)
RetryOnlyUnsent ==
  [][\A r \in Req : (pc[r] \in {"gate", "send"} /\ pc'[r] \in {"retry", "refused"}) => asg[r] \notin sent[r]]_vars

(* C09: an idle connection is activated only if it is not stale *)
StateConstraint == TRUE
=============================================================================
