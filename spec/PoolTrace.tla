----------------------------- MODULE PoolTrace -----------------------------
(***************************************************************************)
(* Trace validation of executions recorded from the REAL AsyncConnectionPool *)
(* (driven on a virtual-time event loop over a simulated network) against  *)
(* Pool.  The log has one event per scheduling quantum of the event loop:   *)
(* who ran, and the state projected through public surfaces afterwards.     *)
(* A quantum of request r is explained by 0..K consecutive Pool actions of  *)
(* r whose result projects to the logged state; hidden variables (program   *)
(* counters, assignments, sets still to close) are inferred by TLC.         *)
(* Recorded passes are checked against the declarative PassRel, not against *)
(* the algorithm.                                                           *)
(***************************************************************************)
EXTENDS Pool, Json, IOUtils, TLCExt

CONSTANTS K,          \* max Pool actions per quantum
          Relax,      \* names of checks switched off (diagnostic runs)
          DevChoices  \* sequence of deviation sets; every trace is validated once per entry

Traces == JsonDeserialize(IOEnv.TRACE_FILE)

VARIABLES tid, di, l, k, flag,
          cf      \* connections on which the driver injected a fault (the only legitimate source of a
                  \* connection-level HTTP/2 error in these executions: the peers are well behaved)
tvars == <<tid, di, l, k, flag, cf>>

T    == Traces[tid]
N    == Len(T.ev)
Ev   == T.ev[l]
NReq == Len(T.cfg.originOf)
TReq == 1..NReq

Chk(name, e) == name \in Relax \/ e

TCfg == [originOf |-> [r \in Req |-> IF r <= NReq THEN T.cfg.originOf[r] ELSE ""],
         maxConn |-> T.cfg.maxConn, maxKeep |-> T.cfg.maxKeep, expiry |-> T.cfg.expiry,
         poolTO |-> [r \in Req |-> IF r <= NReq THEN T.cfg.poolTO[r] ELSE NoTimeout],
         mux |-> SeqToSet(T.cfg.mux), muxGuess |-> SeqToSet(T.cfg.muxGuess), noKeep |-> SeqToSet(T.cfg.noKeep),
         dev |-> DevChoices[di], threads |-> T.cfg.threads]

TInit ==
  /\ tid \in 1..Len(Traces) /\ di \in 1..Len(DevChoices)
  /\ l = 1 /\ k = 0
  /\ flag = [r \in Req |-> "none"] /\ cf = {}
  /\ cfg = TCfg
  /\ InitRest

(***************************************************************************)
(* Projection                                                              *)
(***************************************************************************)
Known(o) == 1..Len(o.cs)
Bag(S, f(_)) == [v \in {f(x) : x \in S} |-> Cardinality({x \in S : f(x) = v})]
FutureDeadlines == {r \in Req : pc[r] = "parked" /\ wdl[r] # NoTimeout /\ wdl[r] > clock}

Match(o) ==
  /\ Chk("m.pool", pool = o.pool)
  /\ Chk("m.state", \A c \in Known(o) : cst[c] = o.cs[c].st)
  /\ Chk("m.unused", \A c \in Conn : c > Len(o.cs) => cst[c] = "unused")
  /\ Chk("m.count", \A c \in Known(o) : ccnt[c] = o.cs[c].cnt)
  /\ Chk("m.origin", \A c \in Known(o) : corg[c] = o.cs[c].org)
  /\ Chk("m.proto", \A c \in Known(o) : cst[c] \in {"new", "active", "idle"} => cmux[c] = o.cs[c].mux)
  /\ Chk("m.reqs", /\ Cardinality({r \in SeqToSet(queue) : asg[r] # None}) = o.na
                   /\ Cardinality({r \in SeqToSet(queue) : asg[r] = None}) = o.nq)
  \* (a stream opens when the driver resolves the connect operation, which the owner notices in
  \*  its next quantum: the ledger is compared after quanta, not after the driver's own stimuli)
  /\ Chk("m.streams", Ev.e \in {"Q", "End"} => {c \in Conn : cstr[c] = "open"} = SeqToSet(o.so))
  /\ Chk("m.clock", clock = o.clock)
  /\ Chk("m.timers", Bag(FutureDeadlines, LAMBDA r : wdl[r]) = Bag(DOMAIN o.tm, LAMBDA i : o.tm[i]))
  \* the public predicates are the functions of the state the specification says they are
  /\ Chk("p.idle",    \A c \in Known(o) : IsIdle(c) = o.cs[c].idle)
  /\ Chk("p.closed",  \A c \in Known(o) : IsClosed(c) = o.cs[c].cl)
  /\ Chk("p.expired", \A c \in Known(o) : HasExpired(c) = o.cs[c].ex)
  /\ Chk("p.avail",   \A c \in Known(o) : (~cmux[c] \/ cst[c] \notin {"active", "idle"}) => IsAvail(c) = o.cs[c].av)

(* properties evaluated on every matched state (the specification's own invariants) *)
Props ==
  /\ Chk("i.ConnLimit", ConnLimit)
  /\ Chk("i.Forgotten", Forgotten)
  /\ Chk("i.NoZombie", NoZombie)
  /\ Chk("i.StreamOwned", StreamOwned)

(***************************************************************************)
(* The pass, bound to the logged pool: candidates for its outcome          *)
(***************************************************************************)
PassCands(q, a0, st0, o) ==
  LET P2set  == SeqToSet(o.pool)
      newIds == {c \in P2set : cst[c] = "unused"}
      gone   == PoolSet \ P2set
      cl     == {c \in gone : ~IsClosedS(st0[c])}
      st     == [c \in Conn |-> IF c \in newIds THEN "connecting" ELSE st0[c]]
      org    == [c \in Conn |-> IF c \in newIds THEN o.cs[c].org ELSE corg[c]]
      unas   == {r \in SeqToSet(q) : a0[r] = None}
      tgt    == P2set \cup cl \cup {None}
  IN IF ~(\A c \in newIds : c >= nextc /\ c < nextc + Cardinality(newIds) /\ c <= Len(o.cs)) THEN {}
     ELSE { [cur |-> o.pool, asg |-> [r \in Req |-> IF r \in unas THEN f[r] ELSE a0[r]], cl |-> cl,
             nx |-> nextc + Cardinality(newIds), st |-> st, org |-> org] : f \in [unas -> tgt] }

RelOK(q, a0, st0, S) == Chk("pass", PassRel(pool, a0, q, S.cur, S.asg, S.cl, clock, st0, {d \in {"KeepaliveCountsAll", "SurplusCountsStale"} : Dev(d)}))

TCall(r) == \E S \in PassCands(Append(queue, r), asg, cst, Ev.obs) :
              CallW(r, S) /\ RelOK(Append(queue, r), asg, cst, S)
TRetry(r) == \E S \in PassCands(queue, asg, cst, Ev.obs) :
              RetryW(r, S) /\ RelOK(queue, asg, cst, S)
TLeave(r) == LET a0 == [asg EXCEPT ![r] = None] IN
             \E st0 \in LeaveSts(r) : \E S \in PassCands(SeqRemove(queue, r), a0, st0, Ev.obs) :
              LeaveW(r, S) /\ RelOK(SeqRemove(queue, r), a0, st0, S)

Faulty(r) == flag[r] = "fail" /\ (ConnectFail(r) \/ EstabFail(r) \/ OpFail(r))

TSub(r) ==
  \/ (TCall(r) \/ TRetry(r) \/ TLeave(r) \/ CloseEvicted(r) \/ StartWait(r) \/ Wake(r) \/ PoolTimeout(r)
      \/ Enter(r) \/ ReqLock(r) \/ ConnectOk(r) \/ Established(r) \/ Activate(r)
      \/ Send(r) \/ (Ev.got /\ RecvHead(r)) \/ (Ev.bend = "full" /\ ReadAll(r)) \/ (Ev.bend = "partial" /\ Abandon(r)) \/ ConnRelease(r)
      \/ CancelDeliver(r) \/ ReleaseStream(r) \/ NativeCancelInShield(r)
      \/ Enqueue(r) \/ Requeue(r) \/ MuxLateRefuse(r) \/ EstabFailMark(r)
      \/ (pc[r] \in InExchange /\ cmux[asg[r]] /\ Collateral(r))) /\ UNCHANGED flag
  \/ Faulty(r) /\ flag' = [flag EXCEPT ![r] = "none"]

(***************************************************************************)
(* Events                                                                  *)
(***************************************************************************)
RetPc(ret) == CASE ret = "ok" -> "done" [] ret = "timeout" -> "timedout"
                [] ret = "cancelled" -> "cancelled" [] OTHER -> "failed"

SubStep ==      \* one more Pool action of the request that ran in this quantum
  /\ l <= N /\ Ev.e = "Q" /\ Ev.r \in TReq /\ k < K
  /\ TSub(Ev.r)
  /\ k' = k + 1 /\ UNCHANGED <<tid, di, l, cf>>

EndSub ==       \* at the end of the execution everybody may catch up with invisible steps
  /\ l <= N /\ Ev.e = "End" /\ k < K
  /\ \E r \in TReq : (StartWait(r) \/ Wake(r) \/ Enter(r) \/ Send(r)) /\ UNCHANGED flag
  /\ k' = k + 1 /\ UNCHANGED <<tid, di, l, cf>>

(* C07 at the end of an execution whose environment has completed every operation: whoever
   has not returned is legitimately blocked - held by the caller's own script, or waiting
   while no connection can take it, the pool is full and nothing is idle *)
EndOK ==
  \A r \in TReq :
     \/ pc[r] \in Terminal \cup {"init"}
     \/ pc[r] = "hold" /\ r \in SeqToSet(Ev.gated)
     \/ r \in SeqToSet(Ev.netblocked)      \* blocked in a network read the peer never answers
     \/ pc[r] = "parked" /\ asg[r] = None /\ ~Serviceable(r)

EnvStep ==      \* the driver's own stimuli
  /\ l <= N /\ k = 0
  /\ cf' = IF Ev.e = "Fault" /\ asg[Ev.r] # None THEN cf \cup {asg[Ev.r]} ELSE cf
  /\ \/ /\ Ev.e = "PoolClose" /\ PoolCloseAll /\ UNCHANGED flag
     \/ /\ Ev.e = "Tick" /\ clock' = Ev.t
        /\ UNCHANGED <<cfg, pool, nextc, cvars, evicted, queue, rvars, budget, pclosed, flag>>
     \/ /\ Ev.e = "PeerClose" /\ cdead' = [cdead EXCEPT ![Ev.c] = TRUE]
        /\ UNCHANGED <<cfg, pool, nextc, cst, corg, cmux, cexp, cerr, cstr, ccnt, cexch, cwire, evicted, queue, rvars, clock, budget, pclosed, flag>>
     \/ /\ Ev.e = "Fault" /\ flag' = [flag EXCEPT ![Ev.r] = "fail"]
        \* C08: a network operation that fails although nothing was injected is explained only
        \* by the connection having been closed under the request
        /\ Chk("t.Collateral", Ev.inj \/ (pc[Ev.r] \in InExchange /\ cst[asg[Ev.r]] = "closed"))
        /\ UNCHANGED vars
     \/ /\ Ev.e = "Cancel" /\ creq' = [creq EXCEPT ![Ev.r] = Ev.style]
        /\ UNCHANGED <<cfg, pool, nextc, cvars, evicted, queue, pc, asg, tocl, nxt, exc, sent, got, wdl, clock, budget, pclosed, flag>>
  /\ k' = 1 /\ UNCHANGED <<tid, di, l>>

EndStep ==      \* commit: the model projects to what was logged
  /\ l <= N
  /\ Ev.e \in {"Q", "End"} \/ k = 1
  /\ Match(Ev.obs) /\ Props
  \* a task runs until it BLOCKS: in the async pool there is no suspension point between the
  \* assignment pass (or the refusal that leads to it) and parking on the connection event, so a
  \* quantum never ends there - a request with a pool timeout is parked, with its deadline armed,
  \* in the very quantum in which it was (re-)queued                       (C16)
  /\ (Ev.e = "Q" /\ ~Threads /\ Ev.r \in TReq) => Chk("q.blocked", pc[Ev.r] \notin {"wait", "retry"})
  /\ Ev.e = "End" => Chk("i.NoStuckCaller", EndOK /\ \A r \in SeqToSet(Ev.live) : pc[r] \notin Terminal)
  \* observed on the simulated network when a response head is handed to its caller:
  \* C10 - the request went to a stream made for exactly its origin, TLS per scheme
  \* C14 - its head was seen on at most one stream
  /\ (Ev.e = "Q" /\ Ev.got) => (Chk("o.Route", Ev.route = "ok") /\ Chk("o.AtMostOnce", Ev.nsent <= 1))
  \* C01 - status line / headers / body are the ones the server sent in answer to THIS caller
  \*       (the peers echo a per-call token), and a connection that reports idle has finished
  \*       the previous exchange completely in both directions
  /\ (Ev.e = "Q" /\ Ev.got) => Chk("o.OwnResponse", Ev.tokok)
  /\ (Ev.e = "Q" /\ Ev.bend # "") => Chk("o.OwnBody", Ev.bodyok)
  /\ Chk("o.ReuseGate", \A c \in Known(Ev.obs) : (Ev.obs.cs[c].st = "idle" /\ ~Ev.obs.cs[c].mux /\ ~Ev.obs.cs[c].ex) => Ev.obs.cs[c].xc)
  \* C14 - however the call ended, its request head was seen on at most one stream
  /\ (Ev.e = "Q" /\ Ev.ret # "") => Chk("o.AtMostOnceAtReturn", Ev.rsent <= 1)
  /\ Ev.e = "Q" /\ Ev.r \in TReq =>
        \* (threads: the call returns a quantum or two after its last critical section - the lock
        \*  release is a pre-emption point; whoever has not returned by the End is checked there)
        \* (async: closing a stream is a checkpoint AFTER the socket is closed - anyio's aclose() - so a call
        \*  whose last critical section closed a connection is suspended once more before it returns)
        \*  ... and a one-shot task cancellation (asyncio Task.cancel) that was requested while the call was
        \*  suspended there is delivered at that checkpoint: all the work is done, the outcome is "cancelled")
        Chk("ret", IF Ev.ret = "" THEN TRUE
                   ELSE \/ pc[Ev.r] = RetPc(Ev.ret)
                        \/ Ev.ret = "cancelled" /\ pc[Ev.r] = "done" /\ creq[Ev.r] = "native")
  /\ l' = l + 1 /\ k' = 0 /\ UNCHANGED cf
  \* HTTP/2 connection-level error is read off the availability the connection reports; with
  \* well-behaved peers it appears only on a connection that was given an injected fault
  \* (DEVIATION MuxCancelCorrupts: or after a request to that origin was cancelled, see Pool)
  /\ Chk("m.connerr", \A c \in Known(Ev.obs) :
          (cmux[c] /\ cst[c] \in {"active", "idle"} /\ ~Ev.obs.cs[c].av /\ ~cerr[c]) =>
             \/ c \in cf \/ pclosed
             \/ Dev("MuxCancelCorrupts") /\ \E x \in Req : exc[x] = "cancel" /\ OriginOf[x] = corg[c])
  /\ cerr' = [c \in Conn |-> IF c \in Known(Ev.obs) /\ cmux[c] /\ cst[c] \in {"active", "idle"}
                               THEN ~Ev.obs.cs[c].av ELSE cerr[c]]
  /\ UNCHANGED <<cfg, pool, nextc, cst, corg, cmux, cexp, cdead, cstr, ccnt, cexch, cwire, evicted, queue, rvars, clock, budget, pclosed, tid, di, flag>>

TNext == SubStep \/ EndSub \/ EnvStep \/ EndStep
TSpec == TInit /\ [][TNext]_<<vars, tvars>>

(***************************************************************************)
(* Batch acceptance: the longest matched prefix per trace                  *)
(***************************************************************************)
ND == Len(DevChoices)
Reg == (tid - 1) * ND + di
ASSUME \A i \in 1..(Len(Traces) * ND) : TLCSet(i, 0)
Mark == IF TLCGet(Reg) < l THEN TLCSet(Reg, l) ELSE TRUE
Post == \A i \in 1..Len(Traces) : \A d \in 1..ND :
          PrintT(<<"TRACE", i, d, IF TLCGet((i - 1) * ND + d) = Len(Traces[i].ev) + 1 THEN "ACCEPT" ELSE "REJECT",
                   TLCGet((i - 1) * ND + d)>>)
=============================================================================
