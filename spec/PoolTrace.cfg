SPECIFICATION TSpec
CONSTANTS
  Req <- TrReq
  Conn <- TrConn
  Origin <- TrOrigin
  Cfgs <- TrCfgs
  None <- NoneC
  NoExpiry <- NoExpC
  NoTimeout <- NoTOC
  MaxClock = 1000
  Faults = 99
  Abandons = TRUE
  Deviations <- TrDev
  K = 9
  Relax <- TrRelax
CONSTRAINT Mark
POSTCONDITION Post
CHECK_DEADLOCK FALSE
