----------------------------- MODULE MCReqWire -----------------------------
EXTENDS ReqWire
VARIABLE x
VShapes == {s \in Shapes : Valid(s)}
ASSUME HostExactlyOnce(VShapes)
ASSUME FramingAtMostOnce(VShapes)
ASSUME BodyFramedIffPresent(VShapes)
Init == x \in VShapes
Next == UNCHANGED x
Spec == Init /\ [][Next]_x
WellFormed == Expected(x).kind \in {"ok", "LocalProtocolError"}
=============================================================================
