SPECIFICATION Spec
CONSTANTS
  Req <- R3
  Conn <- C5
  Origin <- OAB
  Cfgs <- CfgsQ2
  None <- NoneC
  NoExpiry <- NoExpC
  NoTimeout <- NoTOC
  MaxClock = 2
  Faults = 1
  Abandons = TRUE
  CancelStyles <- StylesScope
  WithPoolClose = FALSE
  Deviations <- Empty
INVARIANT TypeOK
INVARIANT ConnLimit
INVARIANT Forgotten
INVARIANT NoZombie
INVARIANT StreamOwned
INVARIANT NoServiceableWaiter
INVARIANT OwnResponse
INVARIANT ReuseGate
INVARIANT AtMostOnce
PROPERTY PassImplementsRel
PROPERTY PoolTimeoutExact
PROPERTY RetryOnlyUnsent
