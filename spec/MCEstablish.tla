---------------------------- MODULE MCEstablish ----------------------------
EXTENDS Establish
Valid(c) == /\ (c.http1 \/ c.http2)
            /\ (c.uds => c.proxy = "none")
            /\ (c.auth => c.proxy # "none")
            /\ (c.retries > 0 => c.proxy = "none")
            /\ (c.phdr # "none" => c.proxy \in {"http", "https"})
AllCases == {c \in [scheme : {"http", "https", "ws", "wss"}, proxy : {"none", "http", "https", "socks5"},
                    auth : BOOLEAN, http1 : BOOLEAN, http2 : BOOLEAN, alpnH2 : BOOLEAN, sniExt : BOOLEAN,
                    uds : BOOLEAN, retries : 0..4, tmo : BOOLEAN,
                    phdr : {"none", "distinct", "collide"}, body : BOOLEAN] : Valid(c)}
QuickCases == {c \in AllCases : c.retries \in {0, 2} /\ c.tmo /\ ~c.uds /\ (c.body <=> c.phdr = "collide" \/ c.auth)}
RetryCases == {c \in AllCases : c.proxy = "none" /\ c.http1 /\ ~c.http2 /\ ~c.sniExt /\ ~c.alpnH2 /\ c.tmo /\ c.scheme \in {"http", "https"}}
NoDev == {}
CodeDevs == {"SocksNoTimeout", "TunnelAlwaysTls", "SocksTlsHttpsOnly", "TunnelIgnoresSniExt"}
DevRetryAny == {"RetryAnyError"}
DevSocksTmo == {"SocksNoTimeout"}
DevTunnelTls == {"TunnelAlwaysTls"}
DevSocksTls == {"SocksTlsHttpsOnly"}
DevTunnelSni == {"TunnelIgnoresSniExt"}
DevSocksLeak == {"SocksFailureLeaksStream"}
=============================================================================
