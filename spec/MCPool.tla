------------------------------ MODULE MCPool ------------------------------
(* model-checking instances of Pool: constants as definitions *)
EXTENDS Pool
R2 == {1, 2}
R3 == {1, 2, 3}
C4 == 1..4
C5 == 1..5
C6 == 1..6
OAB == {"A", "B"}
NoneC == 0
NoExpC == -1
NoTOC == -1
Empty == {}
OrgAAB == (1 :> "A") @@ (2 :> "A") @@ (3 :> "B")
OrgABA == (1 :> "A") @@ (2 :> "B") @@ (3 :> "A")
OrgAAA == (1 :> "A") @@ (2 :> "A") @@ (3 :> "A")
TOnone == (1 :> -1) @@ (2 :> -1) @@ (3 :> -1)
TO2 == (1 :> -1) @@ (2 :> 1) @@ (3 :> -1)
TO0 == (1 :> -1) @@ (2 :> 0) @@ (3 :> -1)
Cfg(o, mc, mk, ex, to, mux, mg) ==
  [originOf |-> o, maxConn |-> mc, maxKeep |-> mk, expiry |-> ex, poolTO |-> to, mux |-> mux, muxGuess |-> mg, noKeep |-> {}, dev |-> {}, threads |-> FALSE]
CfgNK(o, mc, mk, ex, to, mux, mg, nk) == [Cfg(o, mc, mk, ex, to, mux, mg) EXCEPT !.noKeep = nk]
\* quick: one connection, keep-alive with expiry, one pool timeout
CfgsQ1 == {Cfg(OrgAAB, 1, 1, 1, TO2, {}, {}), CfgNK(OrgAAB, 1, 1, -1, TOnone, {}, {}, {1})}
CfgsQ1a == {Cfg(OrgAAB, 1, 1, 1, TO2, {}, {})}
CfgsQ3a == {Cfg(OrgAAA, 1, 1, -1, TOnone, {}, {"A"})}
\* two connections, keep-alive limit below the connection limit
CfgsQ2 == {Cfg(OrgABA, 2, 1, -1, TOnone, {}, {})}
\* HTTP/2 guess that turns out HTTP/1.1 (re-queue), and real HTTP/2
CfgsQ3 == {Cfg(OrgAAA, 1, 1, -1, TOnone, {}, {"A"}), Cfg(OrgAAB, 2, 2, -1, TOnone, {"A"}, {"A"})}
CfgsT == { Cfg(o, mc, mk, ex, to, mux, mg) :
             o \in {OrgAAB, OrgABA}, mc \in {1, 2}, mk \in {0, 1}, ex \in {-1, 0, 1},
             to \in {TOnone, TO2, TO0}, mux \in {{}}, mg \in {{}, {"A"}} }
\* medium product instances (exhaustive in the thorough tier, three slices); the full product
\* CfgsT is explored by simulation
CfgsMbase == { Cfg(o, mc, mk, -1, TOnone, {}, mg) :
                 o \in {OrgAAB, OrgABA}, mc \in {1, 2}, mk \in {0, 1}, mg \in {{}, {"A"}} }
CfgsMexp  == { Cfg(o, mc, mk, ex, TOnone, {}, {}) :
                 o \in {OrgAAB, OrgABA}, mc \in {1, 2}, mk \in {0, 1}, ex \in {0, 1} }
CfgsMto   == { Cfg(o, mc, mk, -1, to, {}, {}) :
                 o \in {OrgAAB, OrgABA}, mc \in {1, 2}, mk \in {0, 1}, to \in {TO2, TO0} }
StylesScope == {"scope"}
StylesBoth == {"scope", "native"}
DevNative == {"NativeCancelInShield"}
\* keep-alive limit below the connection limit, two idle candidates
CfgsK1 == {Cfg(OrgABA, 2, 1, -1, TOnone, {}, {}), Cfg(OrgAAB, 2, 0, 1, TOnone, {}, {})}
\* liveness instance (two requests, one connection)
OrgAA2 == (1 :> "A") @@ (2 :> "A")
OrgAB2 == (1 :> "A") @@ (2 :> "B")
TOnone2 == (1 :> -1) @@ (2 :> -1)
CfgsL1 == {Cfg(OrgAA2, 1, 1, -1, TOnone2, {}, {}), Cfg(OrgAB2, 1, 1, -1, TOnone2, {}, {}), Cfg(OrgAA2, 1, 1, -1, TOnone2, {}, {"A"})}
DevReconn == {"ReconnectOnFailed"}
\* pool timeouts: deadline before / at / after the slot is freed; a zero timeout
TO3 == (1 :> -1) @@ (2 :> 2) @@ (3 :> 0)
TO4 == (1 :> -1) @@ (2 :> 1) @@ (3 :> 3)
CfgsTO == {Cfg(OrgAAB, 1, 1, -1, TO3, {}, {}), Cfg(OrgABA, 1, 1, -1, TO4, {}, {})}
\* the synchronous pool shared by threads (C08): no faults, no cancellation, no time
Th(c) == [c EXCEPT !.threads = TRUE]
CfgsTh1 == {Th(Cfg(OrgAAB, 1, 1, -1, TOnone, {}, {})), Th(Cfg(OrgABA, 1, 0, -1, TOnone, {}, {}))}
CfgsTh2 == {Th(Cfg(OrgABA, 2, 1, -1, TOnone, {}, {})), Th(Cfg(OrgAAB, 2, 0, -1, TOnone, {}, {}))}
CfgsThL == {Th(Cfg(OrgAA2, 1, 1, -1, TOnone2, {}, {})), Th(Cfg(OrgAB2, 1, 1, -1, TOnone2, {}, {})), Th(Cfg(OrgAB2, 1, 0, -1, TOnone2, {}, {}))}
NoStyles == {}
DevActEv == {"ActivateEvicted"}
DevLimit == {"CreateAtLimit"}
DevNoRemove == {"ForgetRemove"}
DevNoPass == {"NoPassOnLeave"}
DevKeep == {"KeepaliveCountsAll"}
DevStale == {"SurplusCountsStale"}
\* a stale idle connection next to a healthy one: keep-alive limit 1 of 2, expiry 1
CfgsK2 == {Cfg(OrgABA, 2, 1, 1, TOnone, {}, {})}
DevFresh == {"AbandonAssignedFresh"}
DevTO == {"TimeoutAfterAssign"}
DevGate == {"CancelAtGateLeavesNew"}
DevIdle == {"IdleAlways"}
DevEstab == {"EstabFailLeaksStream"}
DevTls == {"CancelInEstabLeaksStream"}
=============================================================================
