------------------------------ MODULE MCPool ------------------------------
(* model-checking instances of Pool: constants as definitions *)
EXTENDS Pool
R2 == {1, 2}
R3 == {1, 2, 3}
C4 == 1..4
C5 == 1..5
C6 == 1..6
OAB == {"A", "B"}
OrgAAB == (1 :> "A") @@ (2 :> "A") @@ (3 :> "B")
OrgABA == (1 :> "A") @@ (2 :> "B") @@ (3 :> "A")
OrgAB == (1 :> "A") @@ (2 :> "B")
OrgAA == (1 :> "A") @@ (2 :> "A")
NoneC == -1
NoExpC == -1
NoTOC == -1
TO_none3 == (1 :> -1) @@ (2 :> -1) @@ (3 :> -1)
TO_13 == (1 :> -1) @@ (2 :> 1) @@ (3 :> -1)
TO_none2 == (1 :> -1) @@ (2 :> -1)
TO_12 == (1 :> -1) @@ (2 :> 1)
TO_02 == (1 :> -1) @@ (2 :> 0)
Empty == {}
MuxA == {"A"}
DevKeep == {"KeepaliveCountsAll"}
DevFresh == {"AbandonAssignedFresh"}
DevTO == {"TimeoutAfterAssign"}
DevGate == {"CancelAtGateLeavesNew"}
DevIdle == {"IdleAlways"}
=============================================================================
