------------------------------ MODULE SyncAsync ------------------------------
(***************************************************************************)
(* Two implementations, one behaviour (C18).  A trace is a PAIR of event    *)
(* logs of the same single-caller scenario, one recorded from the async     *)
(* classes and one from the sync classes (operations with their abstract     *)
(* arguments, a digest of every byte string, results, exception classes,     *)
(* pool / connection state strings).  The two logs are walked in lock step:  *)
(* the specification has one action, which both implementations must take    *)
(* identically.                                                              *)
(***************************************************************************)
EXTENDS Integers, Sequences, TLC, Json, IOUtils, TLCExt
Traces == JsonDeserialize(IOEnv.TRACE_FILE)
VARIABLES tid, l
Tr == Traces[tid]
Max(a, b) == IF a > b THEN a ELSE b
N == Max(Len(Tr.a), Len(Tr.s))
TInit == tid \in 1..Len(Traces) /\ l = 1
Both == /\ l <= Len(Tr.a) /\ l <= Len(Tr.s)       \* neither log ends before the other
        /\ Tr.a[l] = Tr.s[l]                       \* same operation, arguments, bytes, outcome, state
        /\ l' = l + 1 /\ UNCHANGED tid
TSpec == TInit /\ [][Both]_<<tid, l>>
ASSUME \A x \in 1..Len(Traces) : TLCSet(x, 0)
Mark == IF TLCGet(tid) < l THEN TLCSet(tid, l) ELSE TRUE
Post == \A x \in 1..Len(Traces) :
          PrintT(<<"TRACE", x, 1, IF TLCGet(x) = Max(Len(Traces[x].a), Len(Traces[x].s)) + 1 THEN "ACCEPT" ELSE "REJECT", TLCGet(x)>>)
=============================================================================
