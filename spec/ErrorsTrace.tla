----------------------------- MODULE ErrorsTrace -----------------------------
(* Each observation: a stage, a cause, and what the caller saw (class name, defining module,
   or a hang).  There is no action for a hang: a call never hangs once its input has ended. *)
EXTENDS Errors, Json, IOUtils, TLCExt
CONSTANT Accept      \* names of known deviations accepted in diagnostic runs
Traces == JsonDeserialize(IOEnv.TRACE_FILE)
VARIABLES tid, l
Tr == Traces[tid]
TInit == tid \in 1..Len(Traces) /\ l = 1
Known ==
  \/ "SocksLibraryErrors" \in Accept /\ ProxyStage(Tr.stage) /\ Tr.cls \in {"ProtocolError", "AssertionError"} /\ ~Tr.hang
  \/ "H2LibraryErrorInBody" \in Accept /\ Tr.stage \in {"h2-frames", "h2-hpack", "h2-preface"} /\ Tr.mod # "httpcore" /\ Tr.cls \in {"ProtocolError", "FrameTooLargeError", "FlowControlError", "InvalidBodyLengthError", "StreamClosedError", "NoSuchStreamError", "InvalidSettingsValueError", "FrameDataMissingError", "DenialOfServiceError"} /\ ~Tr.hang
  \/ "PeerErrorReportedLocal" \in Accept /\ Tr.stage \in {"h2-frames", "h2-hpack", "h2-preface", "h2-status"} /\ Tr.cls = "LocalProtocolError" /\ ~Tr.hang
  \/ "StatusNotNumeric" \in Accept /\ Tr.stage = "h2-status" /\ Tr.cls = "ValueError" /\ ~Tr.hang
  \* HTTP/2: a body that does not match the caller's own Content-Length is not noticed locally (the h2
  \* library does not count outbound bytes); the SERVER rejects it and the caller is told the peer erred
  \/ "H2BodyLengthLeftToPeer" \in Accept /\ Tr.stage = "request" /\ Tr.cause = "invalid-request"
        /\ Tr.cls = "RemoteProtocolError" /\ Tr.mod = "httpcore" /\ ~Tr.hang
Judge ==
  \/ /\ ~Tr.hang
     /\ Tr.cls \in Allowed(Tr.stage, Tr.cause)
     /\ Tr.cls # "ok" => (Tr.cls \in Documented /\ Tr.mod = "httpcore")
  \/ Known
TStep == l = 1 /\ Judge /\ l' = 2 /\ UNCHANGED tid
TSpec == TInit /\ [][TStep]_<<tid, l>>
ASSUME \A y \in 1..Len(Traces) : TLCSet(y, 0)
Mark == IF TLCGet(tid) < l THEN TLCSet(tid, l) ELSE TRUE
Post == \A y \in 1..Len(Traces) :
          PrintT(<<"TRACE", y, 1, IF TLCGet(y) = 2 THEN "ACCEPT" ELSE "REJECT", TLCGet(y)>>)
=============================================================================
