SPECIFICATION Spec
CONSTANTS
  Cases <- QuickCases
  Deviations <- NoDev
INVARIANT RetryBound
INVARIANT BackoffSequence
INVARIANT RetryOnlyConnect
INVARIANT LastErrorRaised
INVARIANT NoRetryAfterEstablished
INVARIANT TlsIffSecure
INVARIANT SniAlpn
INVARIANT ProtoChoice
INVARIANT Routing
INVARIANT TimeoutTag
INVARIANT NoTimeoutMeansUnlimited
INVARIANT FailureClosesStream
INVARIANT ConnectFirst
INVARIANT NoHttpBeforeSocksSuccess
INVARIANT RefusalStops
INVARIANT ForwardAbsoluteForm
INVARIANT SecretsOnProxyHopOnly
INVARIANT CallerDataNotInConnect
INVARIANT SocksAsConfigured
