---------------------------- MODULE ReqWireTrace ----------------------------
(* What the independent parsers read from the bytes the REAL connection wrote for a request
   shape (first use and reuse of the connection), judged against ReqWire.Expected. *)
EXTENDS ReqWire, Json, IOUtils, TLCExt
Traces == JsonDeserialize(IOEnv.TRACE_FILE)
VARIABLES tid, l
Tr == Traces[tid]
N == Len(Tr.obs)        \* one observation per transmission (first use, reuse, ...)
TInit == tid \in 1..Len(Traces) /\ l = 1
IsHost(h) == Lower(h[1]) = "host"
HostLeads(hs) == SelectSeq(hs, IsHost) \o SelectSeq(hs, LAMBDA h : ~IsHost(h))
(* a HISTORY of transmissions by one caller: transmission l has its own shape when the trace carries
   "shapes" (the caller re-uses its header-list OBJECT across requests whose bodies differ: what
   was defaulted for one request must not leak into the next) *)
ShapeAt(i) == IF "shapes" \in DOMAIN Tr THEN Tr.shapes[i] ELSE Tr.shape
Judge(o) ==
  LET e == Expected(ShapeAt(l)) IN
  /\ o.kind = e.kind
  \* (HTTP/2: the connection preface may be written on first use - it is not part of the request; there
  \*  "nothing of it is written" is the clause o.att = <<>> below: no frame of a new stream appeared)
  /\ (e.kind = "LocalProtocolError" /\ ShapeAt(l).proto = "h11") => o.written = 0
  /\ (e.kind = "ok" /\ ShapeAt(l).proto = "h11") =>
        /\ o.method = e.method /\ o.target = e.target
        /\ HostLeads(o.headers) = HostLeads(e.headers) /\ o.body = e.body      \* "Host allowed to lead"
  \* HTTP/2: o.att = every transmission ATTEMPT of this request (every HEADERS frame that appeared on
  \* any connection while the call ran, with the DATA of its stream), each judged
  /\ (e.kind = "ok" /\ ShapeAt(l).proto = "h2") =>
        /\ Len(o.att) >= 1
        /\ \A j \in DOMAIN o.att :
             /\ o.att[j].headers = e.headers /\ o.att[j].body = e.body
             /\ o.att[j].endOnHeaders = e.endOnHeaders /\ o.att[j].ended = e.ended
  /\ (e.kind = "LocalProtocolError" /\ ShapeAt(l).proto = "h2") => o.att = <<>>
TStep == l <= N /\ Judge(Tr.obs[l]) /\ l' = l + 1 /\ UNCHANGED tid
TSpec == TInit /\ [][TStep]_<<tid, l>>
ASSUME \A x \in 1..Len(Traces) : TLCSet(x, 0)
Mark == IF TLCGet(tid) < l THEN TLCSet(tid, l) ELSE TRUE
Post == \A x \in 1..Len(Traces) :
          PrintT(<<"TRACE", x, 1, IF TLCGet(x) = Len(Traces[x].obs) + 1 THEN "ACCEPT" ELSE "REJECT", TLCGet(x)>>)
=============================================================================
