---------------------------- MODULE FramingTrace ----------------------------
(***************************************************************************)
(* Observations of the REAL HTTP/1.1 / HTTP/2 connection receiving one      *)
(* concretised case with one segmentation, judged against Framing:          *)
(*  - whenever the client asks the network for more data, what it has       *)
(*    delivered so far consists only of bytes that had arrived, and the      *)
(*    response head is handed over only after it was complete;               *)
(*  - the final outcome (status, header list as sent, body bytes - or an      *)
(*    error) is Expected(case), whatever the segmentation.                    *)
(***************************************************************************)
EXTENDS Framing, Json, IOUtils, TLCExt

Traces == JsonDeserialize(IOEnv.TRACE_FILE)
VARIABLES tid, l
Tr == Traces[tid]
N == Len(Tr.obs)
Ob == Tr.obs[l]
C == Tr.case

TInit ==
  /\ tid \in 1..Len(Traces) /\ l = 1
  /\ cs = C /\ cuts = {} /\ fed = 0 /\ headGiven = FALSE /\ delivered = <<>> /\ outcome = [kind |-> "run"]

TObs ==
  /\ l <= N
  /\ Ob.fed >= fed                               \* the transport only moves forward
  /\ Ob.blen <= Arrived(C, Ob.fed)               \* nothing that has not arrived yet
  /\ Ob.blen <= Len(ExpBody(C))
  /\ Ob.head => Ob.fed >= C.headEnd              \* no head before it is complete
  /\ fed' = Ob.fed
  /\ l' = l + 1
  /\ UNCHANGED <<cs, cuts, headGiven, delivered, outcome, tid>>

Out == Tr.out
TEnd ==
  /\ l = N + 1
  /\ LET e == Expected(C) IN
     /\ Out.kind = e.kind
     /\ e.kind = "ok" =>
          /\ Out.status = e.status               \* the FINAL message: interim ones are skipped
          /\ Out.hdr = e.hdr                     \* its header list exactly as sent (order, case, duplicates)
          /\ Out.body = e.body                   \* byte-exact
          /\ Out.rv = "ok"                       \* reason phrase and version as sent
  /\ l' = l + 1 /\ UNCHANGED <<vars, tid>>

TNext == TObs \/ TEnd
TSpec == TInit /\ [][TNext]_<<vars, tid, l>>

ASSUME \A x \in 1..Len(Traces) : TLCSet(x, 0)
Mark == IF TLCGet(tid) < l THEN TLCSet(tid, l) ELSE TRUE
Post == \A x \in 1..Len(Traces) :
          PrintT(<<"TRACE", x, 1, IF TLCGet(x) = Len(Traces[x].obs) + 2 THEN "ACCEPT" ELSE "REJECT", TLCGet(x)>>)
=============================================================================
