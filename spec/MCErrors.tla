------------------------------ MODULE MCErrors ------------------------------
EXTENDS Errors
ASSUME TaxonomyClosed
VARIABLE x
Init == x \in Stages \X Causes
Next == UNCHANGED x
Spec == Init /\ [][Next]_x
Closed == Allowed(x[1], x[2]) \ {"ok"} \subseteq Documented
=============================================================================
