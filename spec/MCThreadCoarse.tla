--------------------------- MODULE MCThreadCoarse ---------------------------
EXTENDS ThreadCoarse
Choices == <<{}, {"ActivateEvicted"}, {"MuxStreamIdRace"}>>
=============================================================================
