------------------------------- MODULE MCUrl -------------------------------
EXTENDS UrlModel
VARIABLE x
QuickShapes == {s \in Shapes : ~s.upper /\ s.user = "none" /\ ~s.frag /\ s.form = "str" /\ s.path = "root" /\ s.query = "none"}
ASSUME OriginLaw(QuickShapes)
ASSUME ExplicitDefaultSharesOrigin(QuickShapes)
ASSUME HostHeaderPortIffNonDefault(Shapes)
ASSUME TargetIgnoresFragUser({s \in Shapes : s.path \in {"segs", "lastparam"} /\ s.query \in {"none", "plain"} /\ s.hostk \in {"name", "ipv6"} /\ s.port \in {"none", "custom"}})
(* a trivial state machine that walks the shape space, so that TLC reports how many
   shapes Expected was evaluated on *)
Init == x \in Shapes
Next == UNCHANGED x
Spec == Init /\ [][Next]_x
WellFormed == Len(Expected(x).target) >= 1 /\ Expected(x).oport \in {0, 80, 443, 8080}
=============================================================================
