------------------------------- MODULE H2Conn -------------------------------
(***************************************************************************)
(* One HTTP/2 connection shared by several requests, at the grain of the    *)
(* implementation's critical sections (http2.py):                           *)
(*   stream slots: _max_streams_semaphore (113-127, 383-402)                *)
(*   the shared reader: _read_lock, _receive_events (335-381)               *)
(*   flow control: _wait_for_outgoing_flow, _send_stream_data (261-279,     *)
(*                 479-495)                                                 *)
(* The environment is the server: it changes MAX_CONCURRENT_STREAMS, grants *)
(* window, answers or resets streams; what it sends sits in `net` until a   *)
(* request holding the read lock reads it.                                  *)
(*                                                                         *)
(* INTENDED design: the reader never blocks on the semaphore (a lowered      *)
(* limit is recorded as permits OWED, paid back by closing streams), and a   *)
(* sender that obtains the read lock re-checks its window before reading.    *)
(* DEVIATIONS (what the code does): SettingsDownBlocks, FlowRereads,         *)
(* FlowWaitsOnlyAtZero (before 91a0bbb: a NEGATIVE window - INITIAL_WINDOW_SIZE *)
(* lowered in mid-upload, RFC 9113 6.9.2 - was not waited for).              *)
(***************************************************************************)
EXTENDS Integers, Sequences, FiniteSets, TLC

CONSTANTS Req, Body,       \* Body[r]: units of request body to upload
          Limits,          \* values the server may advertise for MAX_CONCURRENT_STREAMS
          MaxSettings,     \* how many SETTINGS changes
          InitWin,         \* initial stream / connection window (units)
          MaxGrant,        \* how much window the server grants in total
          Resets,          \* how many streams the server may reset
          Shrinks,         \* how many times the server may LOWER INITIAL_WINDOW_SIZE (by one unit)
          Deviations
Dev(d) == d \in Deviations
None == 0

VARIABLES
  ph,        \* [Req -> phase]
  permits,   \* value of the stream semaphore
  maxStreams,\* the limit the client has processed (_max_streams)
  owed,      \* permits still to be taken away (intended design only)
  readLock,  \* holder of the read lock, or None
  blockedIn, \* the read-lock holder is blocked inside: "none" | "sem" (acquire) | "net" (network read)
  net,       \* frames sent by the server, not yet read
  evq,       \* [Req -> sequence of events dispatched to the request's stream]
  swin, cwin,\* send windows as the client knows them
  todo,      \* [Req -> body units still to send]
  srvLimit,  \* the limit the server advertised last
  nset, granted, nrst, nshr,
  srvGot,    \* [Req -> body units the server has received]
  answered   \* [Req -> has the server sent its answer]

vars == <<ph, permits, maxStreams, owed, readLock, blockedIn, net, evq, swin, cwin, todo, srvLimit, nset, granted, nrst, nshr, srvGot, answered>>

OpenPh == {"open", "sending", "waitflow", "awaiting"}
OpenReqs == {r \in Req : ph[r] \in OpenPh}
Min(a, b) == IF a < b THEN a ELSE b

Init ==
  /\ ph = [r \in Req |-> "sem"]
  /\ permits = 1 /\ maxStreams = 1 /\ owed = 0        \* one slot until the remote settings are known (113-127)
  /\ readLock = None /\ blockedIn = "none"
  /\ net = <<>> /\ evq = [r \in Req |-> <<>>]
  /\ swin = [r \in Req |-> InitWin] /\ cwin = InitWin
  /\ todo = Body
  /\ srvLimit = 1 /\ nset = 0 /\ granted = 0 /\ nrst = 0 /\ nshr = 0
  /\ srvGot = [r \in Req |-> 0] /\ answered = [r \in Req |-> FALSE]

(* ---- the client ---- *)
SemAcquire(r) ==                       \* http2.py 127
  /\ ph[r] = "sem" /\ permits > 0
  /\ permits' = permits - 1
  /\ ph' = [ph EXCEPT ![r] = IF todo[r] > 0 THEN "sending" ELSE "awaiting"]     \* stream opened, headers sent
  /\ UNCHANGED <<maxStreams, owed, readLock, blockedIn, net, evq, swin, cwin, todo, srvLimit, nset, granted, nrst, nshr, srvGot, answered>>

Flow(r) == Min(swin[r], cwin)
SendData(r) ==                         \* 261-272: a piece no larger than the window
  /\ ph[r] = "sending" /\ todo[r] > 0 /\ Flow(r) > 0
  /\ LET n == Min(todo[r], Flow(r)) IN
     /\ todo' = [todo EXCEPT ![r] = @ - n]
     /\ swin' = [swin EXCEPT ![r] = @ - n] /\ cwin' = cwin - n
     /\ srvGot' = [srvGot EXCEPT ![r] = @ + n]
     /\ ph' = [ph EXCEPT ![r] = IF todo[r] = n THEN "awaiting" ELSE "sending"]
  /\ UNCHANGED <<permits, maxStreams, owed, readLock, blockedIn, net, evq, srvLimit, nset, granted, nrst, nshr, answered>>

(* the window is closed - or NEGATIVE, after INITIAL_WINDOW_SIZE was lowered - : go and read.
   DEVIATION FlowWaitsOnlyAtZero: only an exactly-zero window is waited for; with a negative one the
   code sliced the body with a negative size and kept "sending" (SpinNegative below) *)
Closed(r) == IF Dev("FlowWaitsOnlyAtZero") THEN Flow(r) = 0 ELSE Flow(r) <= 0
WaitFlow(r) ==                         \* 479-495: window closed -> go and read
  /\ ph[r] = "sending" /\ todo[r] > 0 /\ Closed(r)
  /\ ph' = [ph EXCEPT ![r] = "waitflow"]
  /\ UNCHANGED <<permits, maxStreams, owed, readLock, blockedIn, net, evq, swin, cwin, todo, srvLimit, nset, granted, nrst, nshr, srvGot, answered>>

NeedsRead(r) == \/ ph[r] = "awaiting" /\ evq[r] = <<>>
                \/ ph[r] = "waitflow"
TakeReadLock(r) ==                     \* 342
  /\ NeedsRead(r) /\ readLock = None
  /\ readLock' = r
  /\ UNCHANGED <<ph, permits, maxStreams, owed, blockedIn, net, evq, swin, cwin, todo, srvLimit, nset, granted, nrst, nshr, srvGot, answered>>

(* inside the lock: is there still a reason to read? (356; for a sender the intended design
   re-checks the window - DEVIATION FlowRereads: it reads again regardless) *)
StillNeeds(r) == IF ph[r] = "waitflow" THEN (Flow(r) <= 0 \/ Dev("FlowRereads")) ELSE evq[r] = <<>>

ReleaseNoRead(r) ==
  /\ readLock = r /\ blockedIn = "none" /\ ~StillNeeds(r)
  /\ readLock' = None
  /\ ph' = [ph EXCEPT ![r] = IF @ = "waitflow" THEN "sending" ELSE @]
  /\ UNCHANGED <<permits, maxStreams, owed, blockedIn, net, evq, swin, cwin, todo, srvLimit, nset, granted, nrst, nshr, srvGot, answered>>

(* one network read: everything the server has sent is dispatched (358-379) *)
RECURSIVE Dispatch(_, _)
Dispatch(fs, S) ==
  IF fs = <<>> THEN S
  ELSE LET f == Head(fs) IN
    CASE f.t = "settings" ->
           IF f.n > S.ms
             THEN \* more slots: pay the debt first, release the rest (393-395)
                  LET up == f.n - S.ms  pay == Min(up, S.owed) IN
                  Dispatch(Tail(fs), [S EXCEPT !.ms = f.n, !.owed = @ - pay, !.permits = @ + (up - pay)])
           ELSE IF f.n < S.ms
             THEN LET down == S.ms - f.n  take == Min(down, S.permits) IN
                  IF Dev("SettingsDownBlocks") /\ down > S.permits
                    THEN \* the code acquires the permits one by one while holding the read lock
                         [S EXCEPT !.ms = f.n + (down - take), !.permits = 0, !.stuck = TRUE, !.rest = fs]
                    ELSE Dispatch(Tail(fs), [S EXCEPT !.ms = f.n, !.permits = @ - take, !.owed = @ + (down - take)])
           ELSE Dispatch(Tail(fs), S)
      [] f.t = "shrink" ->   \* INITIAL_WINDOW_SIZE lowered: every stream window moves by the difference
           Dispatch(Tail(fs), [S EXCEPT !.swin = [x \in Req |-> IF ph[x] \in OpenPh \cup {"sem"} THEN S.swin[x] - f.n ELSE S.swin[x]]])
      [] f.t = "win" ->
           IF f.r = None THEN Dispatch(Tail(fs), [S EXCEPT !.cwin = @ + f.n])
                         ELSE Dispatch(Tail(fs), [S EXCEPT !.swin[f.r] = @ + f.n])
      [] OTHER ->   \* answer / reset for a stream: queued iff the stream is registered (375-376)
           Dispatch(Tail(fs), IF ph[f.r] \in OpenPh THEN [S EXCEPT !.evq[f.r] = Append(@, f.t)] ELSE S)

NetRead(r) ==
  /\ readLock = r /\ blockedIn = "none" /\ StillNeeds(r) /\ net # <<>>
  /\ LET S == Dispatch(net, [ms |-> maxStreams, owed |-> owed, permits |-> permits, cwin |-> cwin, swin |-> swin,
                             evq |-> evq, stuck |-> FALSE, rest |-> <<>>]) IN
     /\ maxStreams' = S.ms /\ owed' = S.owed /\ permits' = S.permits
     /\ cwin' = S.cwin /\ swin' = S.swin /\ evq' = S.evq
     /\ IF S.stuck
          THEN blockedIn' = "sem" /\ net' = S.rest /\ UNCHANGED <<readLock, ph>>
          ELSE /\ blockedIn' = "none" /\ net' = <<>> /\ readLock' = None
               /\ ph' = [ph EXCEPT ![r] = IF @ = "waitflow" THEN "sending" ELSE @]
  /\ UNCHANGED <<todo, srvLimit, nset, granted, nrst, nshr, srvGot, answered>>

(* DEVIATION SettingsDownBlocks: blocked in the acquire, it goes on once a permit is released *)
Unstick(r) ==
  /\ readLock = r /\ blockedIn = "sem" /\ permits > 0
  /\ permits' = permits - 1 /\ maxStreams' = maxStreams - 1
  /\ blockedIn' = "none"
  /\ UNCHANGED <<ph, owed, readLock, net, evq, swin, cwin, todo, srvLimit, nset, granted, nrst, nshr, srvGot, answered>>

Consume(r) ==                          \* 320-333: the response (or the reset) is taken off the queue
  /\ ph[r] = "awaiting" /\ evq[r] # <<>>
  /\ ph' = [ph EXCEPT ![r] = IF Head(evq[r]) = "answer" THEN "gotit" ELSE "reset"]
  /\ evq' = [evq EXCEPT ![r] = Tail(@)]
  /\ UNCHANGED <<permits, maxStreams, owed, readLock, blockedIn, net, swin, cwin, todo, srvLimit, nset, granted, nrst, nshr, srvGot, answered>>

ResponseClosed(r) ==                   \* 400-402: the slot comes back - or pays a debt
  /\ ph[r] \in {"gotit", "reset"}
  /\ IF owed > 0 THEN owed' = owed - 1 /\ UNCHANGED permits ELSE permits' = permits + 1 /\ UNCHANGED owed
  /\ ph' = [ph EXCEPT ![r] = IF @ = "gotit" THEN "done" ELSE "failed"]
  /\ UNCHANGED <<maxStreams, readLock, blockedIn, net, evq, swin, cwin, todo, srvLimit, nset, granted, nrst, nshr, srvGot, answered>>

(* ---- the server ---- *)
SrvSettings(n) ==
  /\ nset < MaxSettings /\ n \in Limits /\ n # srvLimit
  /\ net' = Append(net, [t |-> "settings", n |-> n]) /\ srvLimit' = n /\ nset' = nset + 1
  /\ UNCHANGED <<ph, permits, maxStreams, owed, readLock, blockedIn, evq, swin, cwin, todo, granted, nrst, nshr, srvGot, answered>>

SrvAnswer(r) ==                        \* once the request is complete
  /\ ph[r] = "awaiting" /\ ~answered[r]
  /\ net' = Append(net, [t |-> "answer", r |-> r]) /\ answered' = [answered EXCEPT ![r] = TRUE]
  /\ UNCHANGED <<ph, permits, maxStreams, owed, readLock, blockedIn, evq, swin, cwin, todo, srvLimit, nset, granted, nrst, nshr, srvGot>>

SrvReset(r) ==
  /\ ph[r] \in OpenPh /\ ~answered[r] /\ nrst < Resets
  /\ net' = Append(net, [t |-> "reset", r |-> r]) /\ answered' = [answered EXCEPT ![r] = TRUE] /\ nrst' = nrst + 1
  /\ UNCHANGED <<ph, permits, maxStreams, owed, readLock, blockedIn, evq, swin, cwin, todo, srvLimit, nset, granted, nshr, srvGot>>

(* the server grants window where an upload is (or will be) starved: to a stream / the connection
   whose window - counting the grants still in flight - is exhausted *)
InFlight(x) == Cardinality({j \in DOMAIN net : net[j].t = "win" /\ net[j].r = x})
PendingShrink == Cardinality({j \in DOMAIN net : net[j].t = "shrink"})
Uploading == {r \in Req : ph[r] \in {"sending", "waitflow"} /\ todo[r] > 0}
SrvWindow(r) ==                        \* r = None: the connection window
  /\ granted < MaxGrant
  /\ IF r = None THEN Uploading # {} /\ cwin + InFlight(None) <= 0
                  ELSE r \in Uploading /\ swin[r] + InFlight(r) - PendingShrink <= 0
  /\ net' = Append(net, [t |-> "win", r |-> r, n |-> 1]) /\ granted' = granted + 1
  /\ UNCHANGED <<ph, permits, maxStreams, owed, readLock, blockedIn, evq, swin, cwin, todo, srvLimit, nset, nrst, nshr, srvGot, answered>>

(* the server lowers INITIAL_WINDOW_SIZE by one unit while an upload is going on *)
SrvShrink ==
  /\ nshr < Shrinks /\ Uploading # {}
  /\ net' = Append(net, [t |-> "shrink", n |-> 1]) /\ nshr' = nshr + 1
  /\ UNCHANGED <<ph, permits, maxStreams, owed, readLock, blockedIn, evq, swin, cwin, todo, srvLimit, nset, granted, nrst, srvGot, answered>>

Client(r) == SemAcquire(r) \/ SendData(r) \/ WaitFlow(r) \/ TakeReadLock(r) \/ ReleaseNoRead(r) \/ NetRead(r)
             \/ Unstick(r) \/ Consume(r) \/ ResponseClosed(r)
Server == SrvShrink \/ (\E n \in Limits : SrvSettings(n)) \/ (\E r \in Req : SrvAnswer(r) \/ SrvReset(r)) \/ (\E r \in Req \cup {None} : SrvWindow(r))
AllDone == \A r \in Req : ph[r] \in {"done", "failed"}
Terminated == AllDone /\ UNCHANGED vars
Next == (\E r \in Req : Client(r)) \/ Server \/ Terminated
Spec == Init /\ [][Next]_vars
(* a server that answers every complete request and grants window to whoever is starved *)
FairSpec == Spec /\ (\A r \in Req : WF_vars(Client(r)) /\ WF_vars(SrvAnswer(r)))
                 /\ (\A r \in Req \cup {None} : WF_vars(SrvWindow(r)))

(***************************************************************************)
(* PROPERTIES                                                              *)
(***************************************************************************)
TypeOK == permits >= 0 /\ owed >= 0 /\ maxStreams >= 0
PermitAccounting == permits + Cardinality(OpenReqs \cup {r \in Req : ph[r] \in {"gotit", "reset"}}) = maxStreams + owed
StreamCap == [][\A r \in Req : (ph[r] = "sem" /\ ph'[r] # "sem") => Cardinality(OpenReqs) < maxStreams + owed]_vars
\* (a stream window may be NEGATIVE after a shrink; what must never happen is DATA beyond it)
FlowSafe == cwin >= 0 /\ (Shrinks = 0 => \A r \in Req : swin[r] >= 0)
FlowRespected == [][\A r \in Req : srvGot'[r] > srvGot[r] => (srvGot'[r] - srvGot[r]) <= Min(swin[r], cwin)]_vars
UploadExact == \A r \in Req : srvGot[r] + todo[r] = Body[r]
NoWedge == <>[]AllDone
(* a blocked reader holding the lock while answers wait in `net` is what "wedged" looks like *)
NoStuckReader == ~(blockedIn = "sem" /\ \A r \in Req : ~ENABLED ResponseClosed(r) /\ ~ENABLED Consume(r))
=============================================================================
