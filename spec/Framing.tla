------------------------------ MODULE Framing ------------------------------
(***************************************************************************)
(* Receiving a response (HTTP/1.1: http11.py 170-236; HTTP/2: http2.py      *)
(* 283-333), independent of how the transport cuts the byte stream.         *)
(*                                                                         *)
(* A case describes what the server sends in abstract terms:                *)
(*   msgs    : sequence of messages [status, hdr] - zero or more interim    *)
(*             1xx ones, then the final one (hdr identifies its header list)*)
(*   method  : "GET" | "HEAD"                                               *)
(*   framing : "cl" | "chunked" | "close" | "none" | "h2"                   *)
(*   body    : sequence of byte values (what the framing carries)           *)
(*   headEnd : wire offset at which the FINAL head is complete              *)
(*   ends    : ends[j] = wire offset at which body byte j is complete       *)
(*   eom     : wire offset at which the framed message is complete          *)
(*             (close-delimited: the connection's end)                      *)
(*   wire    : length of the wire                                           *)
(*   trunc   : the peer stops (EOF / reset) after this many bytes;          *)
(*             wire = never                                                 *)
(* and the transport delivers it cut at `cuts`.  The specification says      *)
(* what the caller gets: Expected(case); the small machine below feeds the   *)
(* wire segment by segment and shows that what has been delivered is always  *)
(* a prefix of the expected body made of bytes that did arrive, and that the *)
(* final outcome is Expected(case) for EVERY cut set.                        *)
(***************************************************************************)
EXTENDS Integers, Sequences, FiniteSets, TLC

CONSTANTS Cases, Deviations
Dev(d) == d \in Deviations

Min(a, b) == IF a < b THEN a ELSE b
Prefix(s, k) == IF k <= 0 THEN <<>> ELSE SubSeq(s, 1, Min(k, Len(s)))
IsPrefix(a, b) == Len(a) <= Len(b) /\ a = Prefix(b, Len(a))

(* the final message is the first one that is not 1xx (101 is final: it switches protocols).
   DEVIATION SkipOneInterim (what-if): only one interim response is skipped. *)
IsInterim(m) == m.status >= 100 /\ m.status < 200 /\ m.status # 101
FinalIdx(c) ==
  IF Dev("SkipOneInterim") /\ Len(c.msgs) > 2 THEN 2
  ELSE CHOOSE j \in DOMAIN c.msgs : ~IsInterim(c.msgs[j]) /\ \A x \in 1..(j - 1) : IsInterim(c.msgs[x])
Final(c) == c.msgs[FinalIdx(c)]

HasBody(c) == c.method # "HEAD" /\ Final(c).status \notin {204, 304} /\ c.framing # "none"
ExpBody(c) == IF HasBody(c) THEN c.body ELSE <<>>

(* how many body bytes have completely arrived once `fed` wire bytes were delivered *)
Arrived(c, fed) == Cardinality({j \in DOMAIN c.ends : c.ends[j] <= fed})

(* what the caller must end up with *)
Expected(c) ==
  IF c.trunc < c.headEnd THEN [kind |-> "error"]                      \* no complete head
  ELSE IF ~HasBody(c) THEN [kind |-> "ok", status |-> Final(c).status, hdr |-> Final(c).hdr, body |-> <<>>]
  ELSE IF c.framing = "close"                                         \* ends where the connection ends
    THEN [kind |-> "ok", status |-> Final(c).status, hdr |-> Final(c).hdr, body |-> Prefix(c.body, Arrived(c, c.trunc))]
  ELSE IF c.trunc < c.eom THEN [kind |-> "error"]                     \* never a silently shorter body
  ELSE [kind |-> "ok", status |-> Final(c).status, hdr |-> Final(c).hdr, body |-> c.body]

(***************************************************************************)
(* Reference receiver: feeds the wire in segments                          *)
(***************************************************************************)
VARIABLES cs, cuts, fed, headGiven, delivered, outcome
vars == <<cs, cuts, fed, headGiven, delivered, outcome>>

Init ==
  /\ cs \in Cases
  /\ cuts \in SUBSET (1..(cs.wire - 1))
  /\ fed = 0 /\ headGiven = FALSE /\ delivered = <<>> /\ outcome = [kind |-> "run"]

Limit == Min(cs.trunc, cs.wire)
NextStop ==
  LET stops == {x \in cuts : x > fed /\ x < Limit} \cup {Limit}
  IN CHOOSE x \in stops : \A y \in stops : x <= y

(* a segment arrives: everything that is complete is handed on *)
Feed ==
  /\ outcome.kind = "run" /\ fed < Limit
  /\ fed' = NextStop
  /\ headGiven' = (fed' >= cs.headEnd)
  /\ delivered' = IF fed' >= cs.headEnd THEN Prefix(ExpBody(cs), Arrived(cs, fed')) ELSE <<>>
  /\ outcome' = IF fed' >= cs.headEnd /\ (~HasBody(cs) \/ (cs.framing # "close" /\ fed' >= cs.eom))
                  THEN [kind |-> "ok", status |-> Final(cs).status, hdr |-> Final(cs).hdr, body |-> delivered']
                  ELSE outcome
  /\ UNCHANGED <<cs, cuts>>

(* the peer is gone *)
Eof ==
  /\ outcome.kind = "run" /\ fed = Limit
  /\ outcome' = IF headGiven /\ HasBody(cs) /\ cs.framing = "close"
                  THEN [kind |-> "ok", status |-> Final(cs).status, hdr |-> Final(cs).hdr, body |-> delivered]
                  ELSE [kind |-> "error"]
  /\ UNCHANGED <<cs, cuts, fed, headGiven, delivered>>

Done == outcome.kind # "run" /\ UNCHANGED vars
Next == Feed \/ Eof \/ Done
Spec == Init /\ [][Next]_vars

(***************************************************************************)
(* C02 on the reference                                                    *)
(***************************************************************************)
PrefixSafe == IsPrefix(delivered, ExpBody(cs)) /\ Len(delivered) <= Arrived(cs, fed)
SegmentationIndependent == outcome.kind # "run" => outcome = Expected(cs)
InterimNeverFinal == outcome.kind = "ok" => ~(outcome.status >= 100 /\ outcome.status < 200 /\ outcome.status # 101)
=============================================================================
