-------------------------- MODULE MCEstablishTrace --------------------------
EXTENDS EstablishTrace
NoCases == {}
NoDev == {}
GAll == {"C10", "C11", "C16", "C20"}
GNone == {}
G10 == {"C10"}
G11 == {"C11"}
G16 == {"C16"}
G20 == {"C20"}
CodeDevs == {"SocksNoTimeout", "TunnelAlwaysTls", "SocksTlsHttpsOnly", "TunnelIgnoresSniExt", "SocksFailureLeaksStream"}
DSocksTmo == {"SocksNoTimeout"}
DTunnelTls == {"TunnelAlwaysTls"}
DSocksTls == {"SocksTlsHttpsOnly"}
DTunnelSni == {"TunnelIgnoresSniExt"}
DSocksLeak == {"SocksFailureLeaksStream"}
NoDSocksTmo == CodeDevs \ DSocksTmo
NoDTunnelTls == CodeDevs \ DTunnelTls
NoDSocksTls == CodeDevs \ DSocksTls
NoDTunnelSni == CodeDevs \ DTunnelSni
NoDSocksLeak == CodeDevs \ DSocksLeak
=============================================================================
