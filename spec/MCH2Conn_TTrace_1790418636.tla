---- MODULE MCH2Conn_TTrace_1790418636 ----
EXTENDS Sequences, TLCExt, MCH2Conn, Toolbox, Naturals, TLC

_expression ==
    LET MCH2Conn_TEExpression == INSTANCE MCH2Conn_TEExpression
    IN MCH2Conn_TEExpression!expression
----

_trace ==
    LET MCH2Conn_TETrace == INSTANCE MCH2Conn_TETrace
    IN MCH2Conn_TETrace!trace
----

_inv ==
    ~(
        TLCGet("level") = Len(_TETrace)
        /\
        evq = (<<<<>>, <<>>>>)
        /\
        maxStreams = (2)
        /\
        answered = (<<FALSE, TRUE>>)
        /\
        nset = (1)
        /\
        readLock = (1)
        /\
        srvLimit = (2)
        /\
        srvGot = (<<1, 0>>)
        /\
        granted = (2)
        /\
        todo = (<<1, 0>>)
        /\
        owed = (0)
        /\
        permits = (1)
        /\
        nrst = (0)
        /\
        cwin = (1)
        /\
        ph = (<<"waitflow", "done">>)
        /\
        blockedIn = ("none")
        /\
        net = (<<>>)
        /\
        swin = (<<1, 1>>)
    )
----

_init ==
    /\ permits = _TETrace[1].permits
    /\ nset = _TETrace[1].nset
    /\ maxStreams = _TETrace[1].maxStreams
    /\ evq = _TETrace[1].evq
    /\ ph = _TETrace[1].ph
    /\ srvGot = _TETrace[1].srvGot
    /\ swin = _TETrace[1].swin
    /\ net = _TETrace[1].net
    /\ readLock = _TETrace[1].readLock
    /\ srvLimit = _TETrace[1].srvLimit
    /\ todo = _TETrace[1].todo
    /\ answered = _TETrace[1].answered
    /\ nrst = _TETrace[1].nrst
    /\ cwin = _TETrace[1].cwin
    /\ owed = _TETrace[1].owed
    /\ blockedIn = _TETrace[1].blockedIn
    /\ granted = _TETrace[1].granted
----

_next ==
    /\ \E i,j \in DOMAIN _TETrace:
        /\ \/ /\ j = i + 1
              /\ i = TLCGet("level")
        /\ permits  = _TETrace[i].permits
        /\ permits' = _TETrace[j].permits
        /\ nset  = _TETrace[i].nset
        /\ nset' = _TETrace[j].nset
        /\ maxStreams  = _TETrace[i].maxStreams
        /\ maxStreams' = _TETrace[j].maxStreams
        /\ evq  = _TETrace[i].evq
        /\ evq' = _TETrace[j].evq
        /\ ph  = _TETrace[i].ph
        /\ ph' = _TETrace[j].ph
        /\ srvGot  = _TETrace[i].srvGot
        /\ srvGot' = _TETrace[j].srvGot
        /\ swin  = _TETrace[i].swin
        /\ swin' = _TETrace[j].swin
        /\ net  = _TETrace[i].net
        /\ net' = _TETrace[j].net
        /\ readLock  = _TETrace[i].readLock
        /\ readLock' = _TETrace[j].readLock
        /\ srvLimit  = _TETrace[i].srvLimit
        /\ srvLimit' = _TETrace[j].srvLimit
        /\ todo  = _TETrace[i].todo
        /\ todo' = _TETrace[j].todo
        /\ answered  = _TETrace[i].answered
        /\ answered' = _TETrace[j].answered
        /\ nrst  = _TETrace[i].nrst
        /\ nrst' = _TETrace[j].nrst
        /\ cwin  = _TETrace[i].cwin
        /\ cwin' = _TETrace[j].cwin
        /\ owed  = _TETrace[i].owed
        /\ owed' = _TETrace[j].owed
        /\ blockedIn  = _TETrace[i].blockedIn
        /\ blockedIn' = _TETrace[j].blockedIn
        /\ granted  = _TETrace[i].granted
        /\ granted' = _TETrace[j].granted

\* Uncomment the ASSUME below to write the states of the error trace
\* to the given file in Json format. Note that you can pass any tuple
\* to `JsonSerialize`. For example, a sub-sequence of _TETrace.
    \* ASSUME
    \*     LET J == INSTANCE Json
    \*         IN J!JsonSerialize("MCH2Conn_TTrace_1790418636.json", _TETrace)

=============================================================================

 Note that you can extract this module `MCH2Conn_TEExpression`
  to a dedicated file to reuse `expression` (the module in the 
  dedicated `MCH2Conn_TEExpression.tla` file takes precedence 
  over the module `MCH2Conn_TEExpression` below).

---- MODULE MCH2Conn_TEExpression ----
EXTENDS Sequences, TLCExt, MCH2Conn, Toolbox, Naturals, TLC

expression == 
    [
        \* To hide variables of the `MCH2Conn` spec from the error trace,
        \* remove the variables below.  The trace will be written in the order
        \* of the fields of this record.
        permits |-> permits
        ,nset |-> nset
        ,maxStreams |-> maxStreams
        ,evq |-> evq
        ,ph |-> ph
        ,srvGot |-> srvGot
        ,swin |-> swin
        ,net |-> net
        ,readLock |-> readLock
        ,srvLimit |-> srvLimit
        ,todo |-> todo
        ,answered |-> answered
        ,nrst |-> nrst
        ,cwin |-> cwin
        ,owed |-> owed
        ,blockedIn |-> blockedIn
        ,granted |-> granted
        
        \* Put additional constant-, state-, and action-level expressions here:
        \* ,_stateNumber |-> _TEPosition
        \* ,_permitsUnchanged |-> permits = permits'
        
        \* Format the `permits` variable as Json value.
        \* ,_permitsJson |->
        \*     LET J == INSTANCE Json
        \*     IN J!ToJson(permits)
        
        \* Lastly, you may build expressions over arbitrary sets of states by
        \* leveraging the _TETrace operator.  For example, this is how to
        \* count the number of times a spec variable changed up to the current
        \* state in the trace.
        \* ,_permitsModCount |->
        \*     LET F[s \in DOMAIN _TETrace] ==
        \*         IF s = 1 THEN 0
        \*         ELSE IF _TETrace[s].permits # _TETrace[s-1].permits
        \*             THEN 1 + F[s-1] ELSE F[s-1]
        \*     IN F[_TEPosition - 1]
    ]

=============================================================================



Parsing and semantic processing can take forever if the trace below is long.
 In this case, it is advised to uncomment the module below to deserialize the
 trace from a generated binary file.

\*
\*---- MODULE MCH2Conn_TETrace ----
\*EXTENDS IOUtils, MCH2Conn, TLC
\*
\*trace == IODeserialize("MCH2Conn_TTrace_1790418636.bin", TRUE)
\*
\*=============================================================================
\*

---- MODULE MCH2Conn_TETrace ----
EXTENDS MCH2Conn, TLC

trace == 
    <<
    ([evq |-> <<<<>>, <<>>>>,maxStreams |-> 1,answered |-> <<FALSE, FALSE>>,nset |-> 0,readLock |-> 0,srvLimit |-> 1,srvGot |-> <<0, 0>>,granted |-> 0,todo |-> <<2, 0>>,owed |-> 0,permits |-> 1,nrst |-> 0,cwin |-> 1,ph |-> <<"sem", "sem">>,blockedIn |-> "none",net |-> <<>>,swin |-> <<1, 1>>]),
    ([evq |-> <<<<>>, <<>>>>,maxStreams |-> 1,answered |-> <<FALSE, FALSE>>,nset |-> 0,readLock |-> 0,srvLimit |-> 1,srvGot |-> <<0, 0>>,granted |-> 0,todo |-> <<2, 0>>,owed |-> 0,permits |-> 0,nrst |-> 0,cwin |-> 1,ph |-> <<"sending", "sem">>,blockedIn |-> "none",net |-> <<>>,swin |-> <<1, 1>>]),
    ([evq |-> <<<<>>, <<>>>>,maxStreams |-> 1,answered |-> <<FALSE, FALSE>>,nset |-> 0,readLock |-> 0,srvLimit |-> 1,srvGot |-> <<1, 0>>,granted |-> 0,todo |-> <<1, 0>>,owed |-> 0,permits |-> 0,nrst |-> 0,cwin |-> 0,ph |-> <<"sending", "sem">>,blockedIn |-> "none",net |-> <<>>,swin |-> <<0, 1>>]),
    ([evq |-> <<<<>>, <<>>>>,maxStreams |-> 1,answered |-> <<FALSE, FALSE>>,nset |-> 0,readLock |-> 0,srvLimit |-> 1,srvGot |-> <<1, 0>>,granted |-> 0,todo |-> <<1, 0>>,owed |-> 0,permits |-> 0,nrst |-> 0,cwin |-> 0,ph |-> <<"waitflow", "sem">>,blockedIn |-> "none",net |-> <<>>,swin |-> <<0, 1>>]),
    ([evq |-> <<<<>>, <<>>>>,maxStreams |-> 1,answered |-> <<FALSE, FALSE>>,nset |-> 0,readLock |-> 1,srvLimit |-> 1,srvGot |-> <<1, 0>>,granted |-> 0,todo |-> <<1, 0>>,owed |-> 0,permits |-> 0,nrst |-> 0,cwin |-> 0,ph |-> <<"waitflow", "sem">>,blockedIn |-> "none",net |-> <<>>,swin |-> <<0, 1>>]),
    ([evq |-> <<<<>>, <<>>>>,maxStreams |-> 1,answered |-> <<FALSE, FALSE>>,nset |-> 1,readLock |-> 1,srvLimit |-> 2,srvGot |-> <<1, 0>>,granted |-> 0,todo |-> <<1, 0>>,owed |-> 0,permits |-> 0,nrst |-> 0,cwin |-> 0,ph |-> <<"waitflow", "sem">>,blockedIn |-> "none",net |-> <<[n |-> 2, t |-> "settings"]>>,swin |-> <<0, 1>>]),
    ([evq |-> <<<<>>, <<>>>>,maxStreams |-> 2,answered |-> <<FALSE, FALSE>>,nset |-> 1,readLock |-> 0,srvLimit |-> 2,srvGot |-> <<1, 0>>,granted |-> 0,todo |-> <<1, 0>>,owed |-> 0,permits |-> 1,nrst |-> 0,cwin |-> 0,ph |-> <<"sending", "sem">>,blockedIn |-> "none",net |-> <<>>,swin |-> <<0, 1>>]),
    ([evq |-> <<<<>>, <<>>>>,maxStreams |-> 2,answered |-> <<FALSE, FALSE>>,nset |-> 1,readLock |-> 0,srvLimit |-> 2,srvGot |-> <<1, 0>>,granted |-> 0,todo |-> <<1, 0>>,owed |-> 0,permits |-> 1,nrst |-> 0,cwin |-> 0,ph |-> <<"waitflow", "sem">>,blockedIn |-> "none",net |-> <<>>,swin |-> <<0, 1>>]),
    ([evq |-> <<<<>>, <<>>>>,maxStreams |-> 2,answered |-> <<FALSE, FALSE>>,nset |-> 1,readLock |-> 0,srvLimit |-> 2,srvGot |-> <<1, 0>>,granted |-> 0,todo |-> <<1, 0>>,owed |-> 0,permits |-> 0,nrst |-> 0,cwin |-> 0,ph |-> <<"waitflow", "awaiting">>,blockedIn |-> "none",net |-> <<>>,swin |-> <<0, 1>>]),
    ([evq |-> <<<<>>, <<>>>>,maxStreams |-> 2,answered |-> <<FALSE, TRUE>>,nset |-> 1,readLock |-> 0,srvLimit |-> 2,srvGot |-> <<1, 0>>,granted |-> 0,todo |-> <<1, 0>>,owed |-> 0,permits |-> 0,nrst |-> 0,cwin |-> 0,ph |-> <<"waitflow", "awaiting">>,blockedIn |-> "none",net |-> <<[r |-> 2, t |-> "answer"]>>,swin |-> <<0, 1>>]),
    ([evq |-> <<<<>>, <<>>>>,maxStreams |-> 2,answered |-> <<FALSE, TRUE>>,nset |-> 1,readLock |-> 0,srvLimit |-> 2,srvGot |-> <<1, 0>>,granted |-> 1,todo |-> <<1, 0>>,owed |-> 0,permits |-> 0,nrst |-> 0,cwin |-> 0,ph |-> <<"waitflow", "awaiting">>,blockedIn |-> "none",net |-> <<[r |-> 2, t |-> "answer"], [r |-> 1, n |-> 1, t |-> "win"]>>,swin |-> <<0, 1>>]),
    ([evq |-> <<<<>>, <<>>>>,maxStreams |-> 2,answered |-> <<FALSE, TRUE>>,nset |-> 1,readLock |-> 0,srvLimit |-> 2,srvGot |-> <<1, 0>>,granted |-> 2,todo |-> <<1, 0>>,owed |-> 0,permits |-> 0,nrst |-> 0,cwin |-> 0,ph |-> <<"waitflow", "awaiting">>,blockedIn |-> "none",net |-> <<[r |-> 2, t |-> "answer"], [r |-> 1, n |-> 1, t |-> "win"], [r |-> 0, n |-> 1, t |-> "win"]>>,swin |-> <<0, 1>>]),
    ([evq |-> <<<<>>, <<>>>>,maxStreams |-> 2,answered |-> <<FALSE, TRUE>>,nset |-> 1,readLock |-> 2,srvLimit |-> 2,srvGot |-> <<1, 0>>,granted |-> 2,todo |-> <<1, 0>>,owed |-> 0,permits |-> 0,nrst |-> 0,cwin |-> 0,ph |-> <<"waitflow", "awaiting">>,blockedIn |-> "none",net |-> <<[r |-> 2, t |-> "answer"], [r |-> 1, n |-> 1, t |-> "win"], [r |-> 0, n |-> 1, t |-> "win"]>>,swin |-> <<0, 1>>]),
    ([evq |-> <<<<>>, <<"answer">>>>,maxStreams |-> 2,answered |-> <<FALSE, TRUE>>,nset |-> 1,readLock |-> 0,srvLimit |-> 2,srvGot |-> <<1, 0>>,granted |-> 2,todo |-> <<1, 0>>,owed |-> 0,permits |-> 0,nrst |-> 0,cwin |-> 1,ph |-> <<"waitflow", "awaiting">>,blockedIn |-> "none",net |-> <<>>,swin |-> <<1, 1>>]),
    ([evq |-> <<<<>>, <<>>>>,maxStreams |-> 2,answered |-> <<FALSE, TRUE>>,nset |-> 1,readLock |-> 0,srvLimit |-> 2,srvGot |-> <<1, 0>>,granted |-> 2,todo |-> <<1, 0>>,owed |-> 0,permits |-> 0,nrst |-> 0,cwin |-> 1,ph |-> <<"waitflow", "gotit">>,blockedIn |-> "none",net |-> <<>>,swin |-> <<1, 1>>]),
    ([evq |-> <<<<>>, <<>>>>,maxStreams |-> 2,answered |-> <<FALSE, TRUE>>,nset |-> 1,readLock |-> 0,srvLimit |-> 2,srvGot |-> <<1, 0>>,granted |-> 2,todo |-> <<1, 0>>,owed |-> 0,permits |-> 1,nrst |-> 0,cwin |-> 1,ph |-> <<"waitflow", "done">>,blockedIn |-> "none",net |-> <<>>,swin |-> <<1, 1>>]),
    ([evq |-> <<<<>>, <<>>>>,maxStreams |-> 2,answered |-> <<FALSE, TRUE>>,nset |-> 1,readLock |-> 1,srvLimit |-> 2,srvGot |-> <<1, 0>>,granted |-> 2,todo |-> <<1, 0>>,owed |-> 0,permits |-> 1,nrst |-> 0,cwin |-> 1,ph |-> <<"waitflow", "done">>,blockedIn |-> "none",net |-> <<>>,swin |-> <<1, 1>>])
    >>
----


=============================================================================

---- CONFIG MCH2Conn_TTrace_1790418636 ----
CONSTANTS
    Req <- R2
    Body <- B20
    Limits <- L123
    MaxSettings = 1
    InitWin = 1
    MaxGrant = 8
    Resets = 0
    Deviations <- DevFlow

INVARIANT
    _inv

CHECK_DEADLOCK
    \* CHECK_DEADLOCK off because of PROPERTY or INVARIANT above.
    FALSE

INIT
    _init

NEXT
    _next

CONSTANT
    _TETrace <- _trace

ALIAS
    _expression
=============================================================================
\* Generated on Sat Sep 26 10:30:38 UTC 2026