------------------------------ MODULE UrlModel ------------------------------
(***************************************************************************)
(* URL, origin and default-header semantics (_models.py 100-136, 249-307).  *)
(* A URL is described by its SHAPE (which kind of scheme / host / port /     *)
(* path / query / fragment / userinfo it has); components are token          *)
(* sequences, so that "the complete path with every segment's parameters"    *)
(* is a statement about sequences.  Expected(s) is RFC 3986 component        *)
(* splitting; the laws below are checked by TLC over the whole shape space.  *)
(***************************************************************************)
EXTENDS Integers, Sequences, FiniteSets, TLC

Schemes == {"http", "https", "ws", "wss"}
DefaultPort(sc) == IF sc \in {"http", "ws"} THEN 80 ELSE 443
OtherDefault(sc) == IF sc \in {"http", "ws"} THEN 443 ELSE 80

Shapes == [scheme : Schemes, upper : BOOLEAN, user : {"none", "user", "userpw"},
           hostk : {"name", "mixed", "ipv4", "ipv6", "ipv6mixed"}, port : {"none", "default", "otherdefault", "custom", "zero"},
           path : {"empty", "root", "segs", "lastparam", "innerparam", "dots", "pct"},
           query : {"none", "empty", "plain", "semi", "qmark"}, frag : BOOLEAN, form : {"str", "bytes"}]

(* the host as stored: lower-cased, an IPv6 literal without its brackets *)
HostTok(s) == CASE s.hostk \in {"name", "mixed"} -> "example.com" [] s.hostk = "ipv4" -> "127.0.0.1"
                [] s.hostk = "ipv6mixed" -> "2001:db8::a"      \* written [2001:DB8::A]: hex digits are case-insensitive too
                [] OTHER -> "::1"
IsV6(s) == s.hostk \in {"ipv6", "ipv6mixed"}
NoPort == -1                       \* "no port given" (port 0 is a port like any other: "http://h:0/")
Port(s) == CASE s.port = "none" -> NoPort [] s.port = "default" -> DefaultPort(s.scheme)
             [] s.port = "otherdefault" -> OtherDefault(s.scheme) [] s.port = "zero" -> 0 [] OTHER -> 8080

(* the path as written - every segment with its parameters, no normalisation; empty -> "/" *)
PathToks(s) ==
  CASE s.path \in {"empty", "root"} -> <<"/">>
    [] s.path = "segs"       -> <<"/a", "/b">>
    [] s.path = "lastparam"  -> <<"/a", "/b", ";p=1">>
    [] s.path = "innerparam" -> <<"/a", ";p=1", "/b">>
    [] s.path = "dots"       -> <<"/a", "/.", "/..", "/b">>
    [] OTHER                 -> <<"/a%20b", "/%7E">>
(* a NON-EMPTY query follows; fragment and userinfo never appear in the target *)
QueryToks(s) ==
  CASE s.query \in {"none", "empty"} -> <<>>
    [] s.query = "plain" -> <<"?", "q=1">>
    [] s.query = "semi"  -> <<"?", "q=1;r=2">>
    [] OTHER             -> <<"?", "q=1?x">>

Expected(s) ==
  [scheme |-> s.scheme,                          \* lower-cased
   host   |-> HostTok(s),
   port   |-> Port(s),                           \* NoPort = None
   target |-> PathToks(s) \o QueryToks(s),
   \* the origin fills in the scheme's default port
   oport  |-> IF Port(s) = NoPort THEN DefaultPort(s.scheme) ELSE Port(s),
   \* the synthesised Host header: IPv6 literals bracketed, the port iff it is not the default
   hosthdr |-> (IF IsV6(s) THEN <<"[", HostTok(s), "]">> ELSE <<HostTok(s)>>)
               \o (IF Port(s) # NoPort /\ Port(s) # DefaultPort(s.scheme) THEN <<":", Port(s)>> ELSE <<>>),
   \* serialising parses back to an equal URL
   roundtrip |-> "equal"]

(***************************************************************************)
(* Laws (checked by TLC as ASSUMEs over the shape space of a configuration) *)
(***************************************************************************)
OriginOf(s) == <<Expected(s).scheme, Expected(s).host, Expected(s).oport>>
OriginLaw(S) ==
  \A a, b \in S : (OriginOf(a) = OriginOf(b)) <=>
      (a.scheme = b.scheme /\ HostTok(a) = HostTok(b)
       /\ (IF Port(a) = NoPort THEN DefaultPort(a.scheme) ELSE Port(a)) = (IF Port(b) = NoPort THEN DefaultPort(b.scheme) ELSE Port(b)))
ExplicitDefaultSharesOrigin(S) ==
  \A a, b \in S : (a.scheme = b.scheme /\ a.hostk = b.hostk /\ a.port = "none" /\ b.port = "default") => OriginOf(a) = OriginOf(b)
TargetIgnoresFragUser(S) ==
  \A a, b \in S : ([a EXCEPT !.frag = FALSE, !.user = "none", !.form = "str", !.upper = FALSE]
                   = [b EXCEPT !.frag = FALSE, !.user = "none", !.form = "str", !.upper = FALSE])
                  => Expected(a) = Expected(b)
HostHeaderPortIffNonDefault(S) ==
  \A s \in S : (\E j \in DOMAIN Expected(s).hosthdr : Expected(s).hosthdr[j] = ":") <=> (Port(s) # NoPort /\ Port(s) # DefaultPort(s.scheme))
=============================================================================
