----------------------------- MODULE MCFraming -----------------------------
EXTENDS Framing
(* abstract wire layouts: an interim head takes 2 units, the final head 3; with Content-Length,
   close-delimited and HTTP/2 framing every body byte takes one unit; chunked: chunks of two
   bytes, each preceded by a 2-unit size line and followed by a 1-unit CRLF, then a 3-unit
   last-chunk + trailer end *)
HeadEnd(ni) == 2 * ni + 3
ChEnd(he, j) == he + 3 * ((j + 1) \div 2) + j - (IF j % 2 = 0 THEN 1 ELSE 1) + (IF j % 2 = 0 THEN 0 ELSE 0)
Ends(fr, he, n) == [j \in 1..n |-> IF fr = "chunked" THEN he + 2 * ((j + 1) \div 2) + j + ((j - 1) \div 2) ELSE he + j]
Eom(fr, he, n) ==
  CASE fr = "none" -> he
    [] fr = "chunked" -> (IF n = 0 THEN he ELSE Ends(fr, he, n)[n] + 1) + 3
    [] OTHER -> he + n
Msgs(ni, st) == [j \in 1..(ni + 1) |-> IF j <= ni THEN [status |-> 100 + 3 * (j - 1), hdr |-> j] ELSE [status |-> st, hdr |-> 9]]
Mk(ni, st, me, fr, n, tr) ==
  LET he == HeadEnd(ni) w == Eom(fr, he, n) IN
  [msgs |-> Msgs(ni, st), method |-> me, framing |-> fr, body |-> [j \in 1..n |-> 10 + j],
   headEnd |-> he, ends |-> Ends(fr, he, n), eom |-> w, wire |-> w, trunc |-> IF tr > w THEN w ELSE tr]
QCases == {Mk(ni, st, me, fr, n, tr) : ni \in 0..2, st \in {200, 204}, me \in {"GET", "HEAD"},
            fr \in {"cl", "chunked", "close", "none"}, n \in 0..2, tr \in {0, 2, 4, 5, 6, 8, 99}}
TCases == {Mk(ni, st, me, fr, n, tr) : ni \in 0..2, st \in {200, 204, 304, 404, 101}, me \in {"GET", "HEAD"},
            fr \in {"cl", "chunked", "close", "none", "h2"}, n \in 0..3, tr \in 0..14 \cup {99}}
NoDev == {}
DevSkipOne == {"SkipOneInterim"}
=============================================================================
