----------------------------- MODULE Establish -----------------------------
(***************************************************************************)
(* How a connection comes into being and which stream a request is written *)
(* to: direct (TCP / Unix socket, optional TLS, retry loop), forwarding     *)
(* proxy, CONNECT tunnel, SOCKS5.  A sequential pipeline: one action per    *)
(* network operation, whose outcome is chosen by the environment.           *)
(*                                                                         *)
(*   httpcore/_async/connection.py      69-165  direct + retries           *)
(*   httpcore/_async/connection_pool.py 128-179 connection type selection  *)
(*   httpcore/_async/http_proxy.py      191-206, 265-343                   *)
(*   httpcore/_async/socks_proxy.py     42-102, 216-299                    *)
(*                                                                         *)
(* The specification says which abstract operation comes next, with which  *)
(* arguments (endpoint, server name, ALPN offer, which configured timeout), *)
(* and what a failure does (retry, close, which error).  Recorded operation *)
(* logs of the real code are replayed against it in lock step.              *)
(***************************************************************************)
EXTENDS Integers, Sequences, FiniteSets, TLC

CONSTANTS Cases,       \* set of case records, see Case below
          Deviations

(* A case:
     scheme  : "http" | "https" | "ws" | "wss"
     proxy   : "none" | "http" | "https" | "socks5"
     auth    : BOOLEAN   proxy credentials configured
     http1, http2 : BOOLEAN
     alpnH2  : BOOLEAN   the TLS peer selects h2 when offered
     sniExt  : BOOLEAN   the request carries the sni_hostname extension
     uds     : BOOLEAN   Unix domain socket (direct only)
     retries : 0..4
     tmo     : BOOLEAN   the request configured all four timeouts
     phdr    : "none" | "distinct" | "collide"   custom proxy headers: none, a name of their own,
               or a name that collides (case-insensitively) with a header of the caller
     body    : BOOLEAN   the caller sends a body                                   *)

VARIABLES cs,      \* the case (fixed)
          i,       \* index of the next planned step
          rl,      \* retries left
          nd,      \* index of the next back-off delay
          ops,     \* operations performed so far (abstract)
          strm,    \* "none" | "open" | "closed": the stream of the current attempt
          layers,  \* TLS layers on the current stream: sequence of "proxy" | "origin"
          res      \* "run" | "ok" | error class

vars == <<cs, i, rl, nd, ops, strm, layers, res>>

Dev(d) == d \in Deviations
Secure(s) == s \in {"https", "wss"}

(* connection type selection (pool 128-179).  Intended: only plain http is FORWARDED; every
   other scheme is tunnelled - and a tunnel is TLS-wrapped iff the scheme is secure. *)
KindOf(c) ==
  CASE c.proxy = "none"   -> "direct"
    [] c.proxy = "socks5" -> "socks"
    [] c.scheme = "http"  -> "forward"
    [] OTHER              -> "tunnel"

Alpn(c) == IF c.http2 THEN "h1h2" ELSE "h1"
Sni(c)  == IF c.sniExt THEN "ext" ELSE "origin"
Tmo(c, which) == IF c.tmo THEN which ELSE "none"

TcpOrigin(c) == IF c.uds THEN [op |-> "uds", tmo |-> Tmo(c, "connect")]
                         ELSE [op |-> "tcp", to |-> "origin", tmo |-> Tmo(c, "connect")]
TcpProxy(c)  == [op |-> "tcp", to |-> "proxy", tmo |-> Tmo(c, "connect")]
TlsOrigin(c, sni) == [op |-> "tls", hop |-> "origin", sni |-> sni, alpn |-> Alpn(c), tmo |-> Tmo(c, "connect")]
(* the hop to the proxy itself is always HTTP/1.1; its server name is the proxy host unless the
   request carries sni_hostname (the extensions travel with the proxied request) *)
TlsProxy(c)  == [op |-> "tls", hop |-> "proxy", sni |-> IF c.sniExt THEN "ext" ELSE "proxy", alpn |-> "h1", tmo |-> Tmo(c, "connect")]
(* what a message may carry (C11): markers are distinct strings planted by the harness *)
Marks(S) == SelectSeq(<<"callerBody", "callerHeader", "proxyAuth", "proxyHeader">>, LAMBDA m : m \in S)
ProxySecrets(c) == (IF c.auth THEN {"proxyAuth"} ELSE {}) \cup (IF c.phdr # "none" THEN {"proxyHeader"} ELSE {})
CallerData(c)   == {"callerHeader"} \cup (IF c.body THEN {"callerBody"} ELSE {})
(* the CONNECT names exactly the origin's host:port and carries the proxy's headers and
   credentials - never anything of the caller's *)
WConnect(c, t) == [op |-> "write", what |-> "connect-req", tmo |-> t, names |-> "origin", carries |-> Marks(ProxySecrets(c)),
                   dup |-> FALSE]    \* a proxy header overrides the built-in Host / Accept, it does not repeat them
(* SOCKS: exactly the configured method is offered; the CONNECT command names the origin *)
WGreet(c, t)   == [op |-> "write", what |-> "socks-greet", tmo |-> t, method |-> IF c.auth THEN "userpass" ELSE "noauth"]
WSAuth(c, t)   == [op |-> "write", what |-> "socks-auth", tmo |-> t]
WSConn(c, t)   == [op |-> "write", what |-> "socks-connect", tmo |-> t, names |-> "origin"]
R(what, t) == [op |-> "read", what |-> what, tmo |-> t]

(* SOCKS negotiation: intended - one of the configured values, never none, when the request
   configured them (the specification picks the connect timeout; the replay accepts any of the
   three).  DEVIATION SocksNoTimeout: the code passes no timeout at all. *)
SocksTmo(c, which) == IF Dev("SocksNoTimeout") THEN "none" ELSE Tmo(c, "connect")

(* DEVIATION TunnelAlwaysTls: the tunnel TLS-wraps every scheme (ws:// included), and ignores
   the sni_hostname extension.   DEVIATION SocksTlsHttpsOnly: SOCKS wraps https only (not wss). *)
TunnelTls(c) == Secure(c.scheme) \/ Dev("TunnelAlwaysTls")
SocksTls(c)  == IF Dev("SocksTlsHttpsOnly") THEN c.scheme = "https" ELSE Secure(c.scheme)
TunnelSni(c) == IF Dev("TunnelIgnoresSniExt") THEN "origin" ELSE Sni(c)

Plan(c) ==
  LET k == KindOf(c) IN
  CASE k = "direct" ->
         <<TcpOrigin(c)>> \o (IF Secure(c.scheme) THEN <<TlsOrigin(c, Sni(c))>> ELSE <<>>)
    [] k = "forward" ->
         <<TcpProxy(c)>> \o (IF c.proxy = "https" THEN <<TlsProxy(c)>> ELSE <<>>)
    [] k = "tunnel" ->
         <<TcpProxy(c)>> \o (IF c.proxy = "https" THEN <<TlsProxy(c)>> ELSE <<>>)
         \o <<WConnect(c, Tmo(c, "write")), R("connect-resp", Tmo(c, "read"))>>
         \o (IF TunnelTls(c) THEN <<TlsOrigin(c, TunnelSni(c))>> ELSE <<>>)
    [] OTHER -> \* socks
         <<TcpProxy(c), WGreet(c, SocksTmo(c, "write")), R("socks-greet", SocksTmo(c, "read"))>>
         \o (IF c.auth THEN <<WSAuth(c, SocksTmo(c, "write")), R("socks-auth", SocksTmo(c, "read"))>> ELSE <<>>)
         \o <<WSConn(c, SocksTmo(c, "write")), R("socks-connect", SocksTmo(c, "read"))>>
         \o (IF SocksTls(c) THEN <<TlsOrigin(c, Sni(c))>> ELSE <<>>)

(* which protocol is spoken on the established stream *)
OriginTls(ls) == \E j \in DOMAIN ls : ls[j] = "origin"
Proto(c, ls) ==
  IF KindOf(c) = "forward" THEN "h1"
  ELSE IF (OriginTls(ls) /\ c.http2 /\ c.alpnH2) \/ (c.http2 /\ ~c.http1) THEN "h2" ELSE "h1"

(* back-off pauses in half seconds: 0, 1/2, 1, 2, 4, ... *)
Delay(n) == IF n = 0 THEN 0 ELSE 2 ^ (n - 1)

Init ==
  /\ cs \in Cases
  /\ i = 1 /\ rl = cs.retries /\ nd = 0
  /\ ops = <<>> /\ strm = "none" /\ layers = <<>> /\ res = "run"

(* (what-if deviation RetryAnyError, used only to show RetryOnlyConnect is not vacuous) *)
Retriable(o) == o \in {"ConnectError", "ConnectTimeout"} \/ (Dev("RetryAnyError") /\ o = "OtherError")
RetriableIntended(o) == o \in {"ConnectError", "ConnectTimeout"}
Outcomes(step) ==
  CASE step.op \in {"tcp", "uds", "tls"} -> {"ok", "ConnectError", "ConnectTimeout", "OtherError"}
    [] step.op = "write" -> {"ok", "WriteError"}
    [] step.op = "read" /\ step.what = "connect-resp" -> {"ok", "refused", "ReadError"}
    [] step.op = "read" -> {"ok", "refused", "ReadError"}
    [] OTHER -> {"ok"}

(* one planned step with outcome o *)
Do(o) ==
  /\ res = "run" /\ i >= 1 /\ i <= Len(Plan(cs))
  /\ LET step == Plan(cs)[i] IN
     /\ o \in Outcomes(step)
     /\ ops' = Append(ops, step @@ [res |-> o])
     /\ IF o = "ok"
        THEN /\ i' = i + 1
             /\ strm' = IF step.op \in {"tcp", "uds"} THEN "open" ELSE strm
             /\ layers' = IF step.op = "tls" THEN Append(layers, step.hop) ELSE layers
             /\ UNCHANGED <<rl, nd, res>>
        ELSE \* a failure: the stream of this attempt must not stay open
             \* DEVIATION SocksFailureLeaksStream: a failed SOCKS negotiation drops the stream unclosed
             /\ strm' = IF strm = "open" /\ ~(Dev("SocksFailureLeaksStream") /\ KindOf(cs) = "socks" /\ step.op # "tls")
                          THEN "closed" ELSE strm
             /\ IF KindOf(cs) = "direct" /\ Retriable(o) /\ rl > 0
                  THEN /\ i' = 0 /\ UNCHANGED <<rl, nd, res, layers>>    \* a pause comes next
                  ELSE /\ res' = (IF o = "refused" THEN "ProxyError" ELSE o)
                       /\ UNCHANGED <<i, rl, nd, layers>>
  /\ UNCHANGED cs

(* the pause between attempts (connection.py 159-165) *)
Sleep ==
  /\ res = "run" /\ i = 0
  /\ ops' = Append(ops, [op |-> "sleep", d |-> Delay(nd), res |-> "ok"])
  /\ rl' = rl - 1 /\ nd' = nd + 1
  /\ i' = 1 /\ strm' = "none" /\ layers' = <<>>
  /\ UNCHANGED <<cs, res>>

(* established: the request goes out on this stream *)
Finish ==
  /\ res = "run" /\ i = Len(Plan(cs)) + 1
  /\ ops' = Append(ops, [op |-> "request", proto |-> Proto(cs, layers),
                          form |-> IF KindOf(cs) = "forward" THEN "absolute" ELSE "origin",
                          via |-> IF KindOf(cs) = "direct" THEN "origin" ELSE "proxy",
                          \* forwarded: the proxy's headers merged BENEATH the caller's (a colliding
                          \* name: the caller's wins); tunnelled / SOCKS / direct: the caller's data only
                          carries |-> Marks(CallerData(cs) \cup
                                       (IF KindOf(cs) = "forward"
                                          THEN (IF cs.auth THEN {"proxyAuth"} ELSE {})
                                               \cup (IF cs.phdr = "distinct" THEN {"proxyHeader"} ELSE {})
                                          ELSE {})),
                          dup |-> FALSE,    \* merged: a name given by both appears once (the caller's)
                          tmo |-> Tmo(cs, "write"), res |-> "ok"])
  /\ res' = "ok"
  /\ UNCHANGED <<cs, i, rl, nd, strm, layers>>

(* any failure after the connection was established is raised as it is - never retried *)
After(o) ==
  /\ res = "ok" /\ ops[Len(ops)].op = "request"
  /\ ops' = Append(ops, [op |-> "post", res |-> o])
  /\ res' = o
  /\ strm' = "closed"          \* the failed exchange closes the connection (C01 / C05)
  /\ UNCHANGED <<cs, i, rl, nd, layers>>

Done == res # "run" /\ UNCHANGED vars

Next == (\E o \in {"ok", "ConnectError", "ConnectTimeout", "OtherError", "WriteError", "ReadError", "refused"} : Do(o))
        \/ Sleep \/ Finish \/ Done
        \/ (\E o \in {"ConnectError", "ConnectTimeout", "ReadError"} : After(o))
Spec == Init /\ [][Next]_vars

-----------------------------------------------------------------------------
(***************************************************************************)
(* PROPERTIES (declarative, over the operation log)                        *)
(***************************************************************************)
Ops(p(_)) == {j \in DOMAIN ops : p(ops[j])}
IsTcp(o) == o.op \in {"tcp", "uds"}
Attempts == Cardinality(Ops(LAMBDA o : IsTcp(o)))
Pauses == [j \in 1..Cardinality(Ops(LAMBDA o : o.op = "sleep")) |->
             ops[CHOOSE x \in Ops(LAMBDA o : o.op = "sleep") :
                    Cardinality({y \in Ops(LAMBDA o : o.op = "sleep") : y <= x}) = j].d]

(* C20 *)
RetryBound      == Attempts <= cs.retries + 1
BackoffSequence == \A j \in DOMAIN Pauses : Pauses[j] = Delay(j - 1)
RetryOnlyConnect ==     \* a pause follows only a connect error / connect timeout of a direct connection
  \A j \in DOMAIN ops : ops[j].op = "sleep" =>
      j > 1 /\ ops[j-1].op \in {"tcp", "uds", "tls"} /\ RetriableIntended(ops[j-1].res) /\ KindOf(cs) = "direct"
LastErrorRaised ==
  (res \notin {"run", "ok"} /\ ops # <<>>) =>
      (ops[Len(ops)].res = res \/ (ops[Len(ops)].res = "refused" /\ res = "ProxyError"))
NoRetryAfterEstablished ==
  \A j \in DOMAIN ops : ops[j].op = "request" =>
      ~\E m \in DOMAIN ops : m > j /\ ops[m].op \in {"tcp", "uds", "tls", "sleep", "request"}

(* C10 *)
TlsIffSecure ==
  (res = "ok") => ((OriginTls(layers) <=> Secure(cs.scheme)) \/ (KindOf(cs) = "forward"))
SniAlpn ==
  \A j \in DOMAIN ops : (ops[j].op = "tls" /\ ops[j].hop = "origin") =>
      /\ ops[j].sni = Sni(cs)
      /\ (ops[j].alpn = "h1h2") <=> cs.http2
ProtoChoice ==
  \A j \in DOMAIN ops : (ops[j].op = "request" /\ ops[j].proto = "h2") =>
      ((OriginTls(layers) /\ cs.alpnH2 /\ cs.http2) \/ (cs.http2 /\ ~cs.http1))
Routing ==
  \A j \in DOMAIN ops : ops[j].op = "tcp" => ops[j].to = (IF cs.proxy = "none" THEN "origin" ELSE "proxy")

(* C16 *)
TimeoutTag ==
  cs.tmo => \A j \in DOMAIN ops : (
      CASE ops[j].op \in {"tcp", "uds", "tls"} -> ops[j].tmo = "connect"
        [] ops[j].op = "write" -> ops[j].tmo \in {"connect", "read", "write"}
        [] ops[j].op = "read"  -> ops[j].tmo \in {"connect", "read", "write"}
        [] ops[j].op = "request" -> ops[j].tmo = "write"
        [] OTHER -> TRUE)
NoTimeoutMeansUnlimited ==
  (~cs.tmo) => \A j \in DOMAIN ops : (ops[j].op \in {"tcp", "uds", "tls", "write", "read", "request"} => ops[j].tmo = "none")

(* C06 / C05 *)
FailureClosesStream == (res \notin {"run", "ok"}) => strm # "open"

(* C11 *)
ConnectFirst ==
  \A j \in DOMAIN ops : (ops[j].op = "request" /\ KindOf(cs) = "tunnel") =>
      \E a, b \in 1..(j-1) : a < b /\ ops[a].op = "write" /\ ops[a].what = "connect-req"
                              /\ ops[b].op = "read" /\ ops[b].what = "connect-resp" /\ ops[b].res = "ok"
NoHttpBeforeSocksSuccess ==
  \A j \in DOMAIN ops : (ops[j].op = "request" /\ KindOf(cs) = "socks") =>
      \E b \in 1..(j-1) : ops[b].op = "read" /\ ops[b].what = "socks-connect" /\ ops[b].res = "ok"
RefusalStops ==
  \A j \in DOMAIN ops : ops[j].res = "refused" => (j = Len(ops) /\ res = "ProxyError")
SecretsOnProxyHopOnly ==
  \A j \in DOMAIN ops : (ops[j].op = "request" /\ KindOf(cs) # "forward") =>
      ~\E m \in DOMAIN ops[j].carries : ops[j].carries[m] \in {"proxyAuth", "proxyHeader"}
CallerDataNotInConnect ==
  \A j \in DOMAIN ops : (ops[j].op = "write" /\ ops[j].what = "connect-req") =>
      ~\E m \in DOMAIN ops[j].carries : ops[j].carries[m] \in {"callerHeader", "callerBody"}
MergedNotRepeated ==
  \A j \in DOMAIN ops : ("dup" \in DOMAIN ops[j]) => ~ops[j].dup
SocksAsConfigured ==
  \A j \in DOMAIN ops : (ops[j].op = "write" /\ ops[j].what = "socks-greet") =>
      ops[j].method = (IF cs.auth THEN "userpass" ELSE "noauth")
ForwardAbsoluteForm ==
  \A j \in DOMAIN ops : ops[j].op = "request" => ((ops[j].form = "absolute") <=> KindOf(cs) = "forward")
(* C11 over a HISTORY: what a LATER request of another caller carries on the kept-alive connection
   (sec = [carries, form, dup, connects, res]): its own headers, the proxy's headers / credentials
   exactly on the forwarding hop, and NOTHING of the request that went before it. *)
Has(sec, m) == \E x \in DOMAIN sec.carries : sec.carries[x] = m
SecondOK(sec) ==
  /\ sec.res = "ok"
  /\ Has(sec, "caller2Header")
  /\ ~Has(sec, "callerHeader") /\ ~Has(sec, "callerBody")
  /\ (sec.form = "absolute") <=> (KindOf(cs) = "forward")
  /\ (KindOf(cs) # "forward") => (~Has(sec, "proxyAuth") /\ ~Has(sec, "proxyHeader"))
  /\ (KindOf(cs) = "forward" /\ cs.auth) => Has(sec, "proxyAuth")
  /\ (KindOf(cs) = "forward" /\ cs.phdr # "none") => Has(sec, "proxyHeader")
  /\ ~sec.dup
=============================================================================
