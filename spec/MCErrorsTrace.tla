---------------------------- MODULE MCErrorsTrace ----------------------------
EXTENDS ErrorsTrace
NoAccept == {}
A1 == {"SocksLibraryErrors"}
A2 == {"H2LibraryErrorInBody"}
A3 == {"PeerErrorReportedLocal"}
A4 == {"StatusNotNumeric"}
A5 == {"H2BodyLengthLeftToPeer"}
=============================================================================
