----------------------------- MODULE OpTimeouts -----------------------------
(***************************************************************************)
(* C16, exchange phase: EVERY network operation issued for a request -      *)
(* connecting, the TLS handshake, each write of the request head and body,  *)
(* each read of interim responses, the response head and the body, HTTP/1.1 *)
(* and HTTP/2 (preface, SETTINGS, acknowledgements, WINDOW_UPDATE) - carries *)
(* the value the request configured for that KIND of operation, and None     *)
(* when the request configured nothing.  (The proxy negotiations are in      *)
(* Establish, the pool timeout in Pool.)                                      *)
(*                                                                         *)
(* A trace is the operation log of one call: kind and which configured value *)
(* the operation was given (the four values are pairwise different, so the   *)
(* name is read off the number).                                             *)
(***************************************************************************)
EXTENDS Integers, Sequences, TLC, Json, IOUtils, TLCExt
Traces == JsonDeserialize(IOEnv.TRACE_FILE)
VARIABLES tid, l
Tr == Traces[tid]

Expected(k) == CASE k \in {"tcp", "uds", "tls"} -> "connect"
                 [] k = "read"  -> "read"
                 [] k = "write" -> "write"
                 [] OTHER -> "?"

TInit == tid \in 1..Len(Traces) /\ l = 1
Op == /\ l <= Len(Tr.ops)
      \* (per_op: several calls with DIFFERENT settings share the log; each operation says whether the
      \*  call that issued it configured timeouts, and its value was named with THAT call's table -
      \*  a value configured by another call reads "foreign")
      /\ LET o == Tr.ops[l]
             configured == IF "per_op" \in DOMAIN Tr THEN o.cfg ELSE Tr.tmo
         IN o.t = (IF configured THEN Expected(o.k) ELSE "none")
      /\ l' = l + 1 /\ UNCHANGED tid
(* the call itself must have gone through: the log is complete *)
Done == l = Len(Tr.ops) + 1 /\ Tr.ret = "ok" /\ l' = l + 1 /\ UNCHANGED tid
TSpec == TInit /\ [][Op \/ Done]_<<tid, l>>

ASSUME \A x \in 1..Len(Traces) : TLCSet(x, 0)
Mark == IF TLCGet(tid) < l THEN TLCSet(tid, l) ELSE TRUE
Post == \A x \in 1..Len(Traces) :
          PrintT(<<"TRACE", x, 1, IF TLCGet(x) = Len(Traces[x].ops) + 2 THEN "ACCEPT" ELSE "REJECT", TLCGet(x)>>)
=============================================================================
