------------------------------- MODULE Errors -------------------------------
(***************************************************************************)
(* Which exception for which cause (C15): _exceptions.py, docs/exceptions.md *)
(* A failing call raises one of the documented classes, and the class        *)
(* matches the cause.  An observation is (stage, cause, what happened).      *)
(***************************************************************************)
EXTENDS Integers, Sequences, FiniteSets, TLC

Documented == {"PoolTimeout", "ConnectTimeout", "ReadTimeout", "WriteTimeout",
               "ConnectError", "ReadError", "WriteError",
               "RemoteProtocolError", "LocalProtocolError", "ProxyError", "UnsupportedProtocol"}

Stages == {"h11-head", "h11-body", "h2-preface", "h2-frames", "h2-hpack", "h2-status", "h2-shared", "connect-reply",
           "socks-greet", "socks-auth", "socks-connect", "backend", "request"}
Causes == {"malformed", "mutated", "eof", "refused", "inject:ConnectError", "inject:ConnectTimeout",
           "inject:ReadError", "inject:ReadTimeout", "inject:WriteError", "inject:WriteTimeout", "invalid-request",
           "unsupported-scheme", "reset"}

ProxyStage(st) == st \in {"connect-reply", "socks-greet", "socks-auth", "socks-connect"}

(* the classes a cause may surface as; "ok" = the call succeeded *)
Allowed(st, ca) ==
  \* (a malformation the protocol library tolerates may still end in success: the statement is
  \*  about FAILING calls)
  CASE ca = "malformed" -> {"ok", "RemoteProtocolError"} \cup (IF ProxyStage(st) THEN {"ProxyError"} ELSE {})
    [] ca = "mutated"   -> {"ok", "RemoteProtocolError"} \cup (IF ProxyStage(st) THEN {"ProxyError"} ELSE {})
    [] ca = "eof"       -> {"RemoteProtocolError"} \cup (IF ProxyStage(st) THEN {"ProxyError"} ELSE {})
    [] ca = "refused"   -> {"ProxyError"}
    \* the peer resets the caller's stream after the response head (any error code, REFUSED_STREAM
    \* and NO_ERROR included): nothing can be re-sent transparently any more
    [] ca = "reset"     -> {"RemoteProtocolError"}
    [] ca = "inject:ConnectError"   -> {"ConnectError"}
    [] ca = "inject:ConnectTimeout" -> {"ConnectTimeout"}
    [] ca = "inject:ReadError"      -> {"ReadError"}
    [] ca = "inject:ReadTimeout"    -> {"ReadTimeout"}
    \* a write error while the request is being sent is set aside and the response is read
    \* (http11 82-95): the peer is gone, so what follows is its disconnect
    [] ca = "inject:WriteError"     -> {"WriteError", "RemoteProtocolError", "ReadError"}
    [] ca = "inject:WriteTimeout"   -> {"WriteTimeout"}
    [] ca = "invalid-request"       -> {"LocalProtocolError"}
    [] ca = "unsupported-scheme"    -> {"UnsupportedProtocol"}
    [] OTHER -> {}

(* the taxonomy itself is sound: every allowed class is documented *)
TaxonomyClosed == \A st \in Stages, ca \in Causes : Allowed(st, ca) \ {"ok"} \subseteq Documented

=============================================================================
