--------------------------- MODULE EstablishTrace ---------------------------
(***************************************************************************)
(* Lock-step replay of operation logs recorded from the real code (sync or *)
(* async pool, one request) against Establish.  The specification is       *)
(* deterministic once the outcome of each operation is known, so every     *)
(* logged operation must be EXACTLY the next operation the specification   *)
(* performs, with the same abstract arguments; the logged outcome drives   *)
(* the transition.  The module's properties are evaluated on every state.  *)
(***************************************************************************)
EXTENDS Establish, Json, IOUtils, TLCExt

CONSTANT PropGroups      \* which properties' clauses are evaluated on the log ({} in diagnostic runs)

Traces == JsonDeserialize(IOEnv.TRACE_FILE)

VARIABLES tid, l
T == Traces[tid]
N == Len(T.ops)
Ev == T.ops[l]

TInit ==
  /\ tid \in 1..Len(Traces) /\ l = 1
  /\ cs = T.case
  /\ i = 1 /\ rl = cs.retries /\ nd = 0
  /\ ops = <<>> /\ strm = "none" /\ layers = <<>> /\ res = "run"

PropsOf(g) ==
  CASE g = "C20" -> RetryBound /\ BackoffSequence /\ RetryOnlyConnect /\ LastErrorRaised /\ NoRetryAfterEstablished
    [] g = "C10" -> TlsIffSecure /\ SniAlpn /\ ProtoChoice /\ Routing
    [] g = "C16" -> TimeoutTag /\ NoTimeoutMeansUnlimited
    [] g = "C11" -> /\ ConnectFirst /\ NoHttpBeforeSocksSuccess /\ RefusalStops /\ ForwardAbsoluteForm
                    /\ SecretsOnProxyHopOnly /\ CallerDataNotInConnect /\ SocksAsConfigured /\ MergedNotRepeated
    [] OTHER -> TRUE
Props == \A g \in PropGroups : PropsOf(g)

(* the specification's step must produce exactly the logged record - except that a step of the
   SOCKS negotiation may use any one of the configured timeouts (the statement leaves it open) *)
SocksSteps == {"socks-greet", "socks-auth", "socks-connect"}
Norm(r) == IF r.op \in {"read", "write"} /\ r.what \in SocksSteps /\ r.tmo \in {"connect", "read", "write"}
             THEN [r EXCEPT !.tmo = "configured"] ELSE r

TStep ==
  /\ l <= N
  /\ \/ Do(Ev.res) \/ Sleep \/ Finish \/ After(Ev.res)
  /\ Norm(ops'[Len(ops')]) = Norm(Ev)
  /\ l' = l + 1 /\ UNCHANGED tid

(* the end of the log: the outcome the caller saw, and no stream left open after a failure *)
TEnd ==
  /\ l = N + 1
  /\ res = T.result
  /\ (res \notin {"run", "ok"}) => ((strm = "open") <=> T.open_after)
  /\ Props
  /\ ("C11" \in PropGroups /\ "second" \in DOMAIN T) => SecondOK(T.second)
  /\ l' = l + 1 /\ UNCHANGED <<vars, tid>>

TNext == TStep \/ TEnd
TSpec == TInit /\ [][TNext]_<<vars, tid, l>>

ASSUME \A x \in 1..Len(Traces) : TLCSet(x, 0)
Mark == IF TLCGet(tid) < l THEN TLCSet(tid, l) ELSE TRUE
Post == \A x \in 1..Len(Traces) :
          PrintT(<<"TRACE", x, 1, IF TLCGet(x) = Len(Traces[x].ops) + 2 THEN "ACCEPT" ELSE "REJECT", TLCGet(x)>>)
=============================================================================
