---------------------------- MODULE MCPoolTrace ----------------------------
EXTENDS PoolTrace
TrReq == 1..6
TrConn == 1..12
TrOrigin == {"A", "B", "C", "D"}
TrCfgs == {}
NoneC == 0
NoExpC == -1
NoTOC == -1
TrDev == {}
TrStyles == {"scope", "native"}
TrRelax == {}
AllDevs == <<"KeepaliveCountsAll", "AbandonAssignedFresh", "TimeoutAfterAssign", "CancelAtGateLeavesNew",
             "EstabFailLeaksStream", "CancelInEstabLeaksStream", "NativeCancelInShield", "ReconnectOnFailed",
             "WaiterCancelFlagsFailed", "ActivateEvicted", "InitRetryOnClosed", "MuxCancelCorrupts", "MuxIdleWhileUsersWait",
             "SurplusCountsStale">>
DevAll == {AllDevs[i] : i \in DOMAIN AllDevs}
ChoiceIntended == <<{}>>
\* diagnosis round 1: each deviation alone, then all together
ChoiceSingles == [i \in 1..(Len(AllDevs) + 1) |-> IF i <= Len(AllDevs) THEN {AllDevs[i]} ELSE DevAll]
\* diagnosis round 2: all but one
ChoiceLeaveOneOut == [i \in 1..Len(AllDevs) |-> DevAll \ {AllDevs[i]}]
RelaxInv == {"i.ConnLimit", "i.Forgotten", "i.NoZombie", "i.StreamOwned", "i.NoStuckCaller"}
=============================================================================
