---------------------------- MODULE MCPoolTrace ----------------------------
EXTENDS PoolTrace
TrReq == 1..6
TrConn == 1..12
TrOrigin == {"A", "B", "C", "D"}
TrCfgs == {}
NoneC == 0
NoExpC == -1
NoTOC == -1
TrDev == {}
TrStyles == {"scope", "native"}
DevAll == {"KeepaliveCountsAll", "AbandonAssignedFresh", "TimeoutAfterAssign", "CancelAtGateLeavesNew", "EstabFailLeaksStream", "CancelInEstabLeaksStream", "NativeCancelInShield", "ReconnectOnFailed", "WaiterCancelFlagsFailed"}
D1 == {"KeepaliveCountsAll"}
D2 == {"AbandonAssignedFresh"}
D3 == {"TimeoutAfterAssign"}
D4 == {"CancelAtGateLeavesNew"}
D5 == {"EstabFailLeaksStream"}
D6 == {"CancelInEstabLeaksStream"}
D7 == {"NativeCancelInShield"}
D8 == {"ReconnectOnFailed"}
D9 == {"WaiterCancelFlagsFailed"}
NoD1 == DevAll \ D1
NoD2 == DevAll \ D2
NoD3 == DevAll \ D3
NoD4 == DevAll \ D4
NoD5 == DevAll \ D5
NoD6 == DevAll \ D6
NoD7 == DevAll \ D7
NoD8 == DevAll \ D8
NoD9 == DevAll \ D9
RelaxInv == {"i.ConnLimit", "i.Forgotten", "i.NoZombie", "i.StreamOwned", "i.NoStuckCaller"}
TrRelax == {}
=============================================================================
