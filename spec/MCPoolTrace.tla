---------------------------- MODULE MCPoolTrace ----------------------------
EXTENDS PoolTrace
TrReq == 1..6
TrConn == 1..12
TrOrigin == {"A", "B", "C", "D"}
TrCfgs == {}
NoneC == 0
NoExpC == -1
NoTOC == -1
TrDev == {}
TrRelax == {}
=============================================================================
