SPECIFICATION Spec
CONSTANTS
  Req <- R3
  Conn <- C5
  Origin <- OAB
  OriginOf <- OrgAAB
  None <- NoneC
  MaxConn = 1
  MaxKeep = 1
  Expiry = 1
  NoExpiry <- NoExpC
  PoolTO <- TO_13
  NoTimeout <- NoTOC
  Mux <- Empty
  MuxGuess <- Empty
  MaxClock = 2
  Faults = 1
  Abandons = TRUE
  Deviations <- Empty
INVARIANT TypeOK
INVARIANT ConnLimit
INVARIANT Forgotten
INVARIANT NoZombie
INVARIANT StreamOwned
INVARIANT NoServiceableWaiter
INVARIANT OwnResponse
INVARIANT ReuseGate
INVARIANT AtMostOnce
PROPERTY PassImplementsRel
PROPERTY PoolTimeoutExact
PROPERTY RetryOnlyUnsent
