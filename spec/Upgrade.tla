------------------------------ MODULE Upgrade ------------------------------
(***************************************************************************)
(* 101 Switching Protocols / 2xx to CONNECT: the network stream handed to   *)
(* the caller (http11.py 114-131, 351-379).                                 *)
(*                                                                         *)
(* The server sends the response head followed by `tail` (T distinct       *)
(* bytes).  The transport delivers the byte stream in segments: the        *)
(* segment that completes the head also carries the first `lead` bytes of   *)
(* the tail (they end up in the HTTP parser's buffer and are captured as    *)
(* leading data); the rest stays in the network, cut at `cuts`.  The caller *)
(* then reads with arbitrary max_bytes values.                              *)
(***************************************************************************)
EXTENDS Integers, Sequences, FiniteSets, TLC

CONSTANTS T,          \* maximal length of the tail
          MaxBytes,   \* set of max_bytes values the caller may use
          MaxReads,
          Deviations

Dev(d) == d \in Deviations

VARIABLES n,        \* length of the tail (0..T)
          lead,     \* how many tail bytes arrived together with the end of the head
          cuts,     \* positions (1..T-1) after which a network read must stop
          leading,  \* bytes buffered in the upgrade stream object
          pos,      \* next tail byte still in the network
          out,      \* bytes delivered to the caller so far
          nreads,
          last      \* the last read: [m, got]

vars == <<n, lead, cuts, leading, pos, out, nreads, last>>

TailB == [j \in 1..n |-> j]
Min(a, b) == IF a < b THEN a ELSE b
Sub(s, a, b) == IF a > b THEN <<>> ELSE SubSeq(s, a, b)

Init ==
  /\ n \in 0..T
  /\ lead \in 0..n
  /\ cuts \in SUBSET (1..(n - 1))
  /\ leading = Sub(TailB, 1, lead)      \* trailing data captured with the head (http11 192-194)
  /\ pos = lead + 1
  /\ out = <<>> /\ nreads = 0 /\ last = [m |-> 0, got |-> <<>>]

(* how far a single network read of at most m bytes gets: up to the next cut *)
NetEnd(m) ==
  LET stops == {c \in cuts : c >= pos} \cup {n}
      nxt == CHOOSE c \in stops : \A d \in stops : c <= d
  IN Min(pos + m - 1, nxt)

(* read(max_bytes) on the upgrade stream (http11 356-362): buffered bytes first, sliced by
   max_bytes; only when the buffer is empty the live connection is read *)
Read(m) ==
  /\ nreads < MaxReads /\ m \in MaxBytes
  /\ IF leading # <<>>
       THEN LET k == Min(m, Len(leading)) IN
            /\ last' = [m |-> m, got |-> Sub(leading, 1, k)]
            /\ out' = out \o Sub(leading, 1, k)
            /\ leading' = (IF Dev("DropRestOfLeading") THEN <<>> ELSE Sub(leading, k + 1, Len(leading)))
            /\ UNCHANGED pos
       ELSE /\ pos <= n
            /\ LET e == NetEnd(m) IN
               /\ last' = [m |-> m, got |-> Sub(TailB, pos, e)]
               /\ out' = out \o Sub(TailB, pos, e)
               /\ pos' = e + 1
            /\ UNCHANGED leading
  /\ nreads' = nreads + 1
  /\ UNCHANGED <<n, lead, cuts>>

Done == (nreads = MaxReads \/ (leading = <<>> /\ pos > n)) /\ UNCHANGED vars
Next == (\E m \in MaxBytes : Read(m)) \/ Done
Spec == Init /\ [][Next]_vars

(***************************************************************************)
(* C17: nothing lost, duplicated or reordered; never more than max_bytes    *)
(***************************************************************************)
Conservation == out \o leading \o Sub(TailB, pos, n) = TailB
Bounded      == Len(last.got) <= last.m
Progressing  == (last.m > 0 /\ nreads > 0) => Len(last.got) > 0
=============================================================================
