"""Encode executions recorded by driver.AsyncRun as trace records for spec/PoolTrace.tla, and
run the batch validation.  Only integers, booleans and short strings from a fixed vocabulary
are emitted (TLC's Json module: no null, no floats)."""
from __future__ import annotations

import httpcore

from . import tlc

ORIGIN_NAMES = "ABCDEFGH"
STATE = {
    "CONNECTING": "connecting",
    "FAILED": "failed",
    "NEW": "new",
    "ACTIVE": "active",
    "IDLE": "idle",
    "CLOSED": "closed",
}


def _int(x, what):
    if x is None:
        return -1
    if float(x) != int(x):
        raise ValueError(f"{what} must be integer-valued for the trace format, got {x!r}")
    return int(x)


class Encoder:
    def __init__(self, run, h2_origins=(), proxy_origin=None, nokeep=()):
        self.nokeep = list(nokeep)
        self.run = run
        self.names = list(run.order)
        self.rid = {n: i + 1 for i, n in enumerate(self.names)}
        self.origins = run.origins
        self.h2_origins = set(h2_origins)  # indexes into run.origins that speak h2
        self.proxy_origin = proxy_origin

    def origin_name(self, idx):
        return ORIGIN_NAMES[idx]

    def origin_of_call(self, call):
        from .urls import ind_origin

        k = ind_origin(call.url)
        for i, x in enumerate(self.run.origin_keys):
            if x == k:
                return i
        raise ValueError("unknown origin")

    def cfg(self):
        kw = self.run.pool_kwargs
        mc = kw.get("max_connections", 10)
        mc = 99 if mc is None else mc
        mk = kw.get("max_keepalive_connections", None)
        mk = mc if mk is None else min(mc, mk)
        http1 = kw.get("http1", True)
        http2 = kw.get("http2", False)
        guess = []
        px = kw.get("proxy")
        tunnel = px is not None and px.url.scheme in (b"http", b"https")  # (a tunnel reports its proxy leg while connecting: never "available")
        for i, o in enumerate(self.origins if not tunnel else []):
            if http2 and (o.scheme == b"https" or not http1):
                guess.append(self.origin_name(i))
        calls = [self.run.calls[n] for n in self.names]
        return {
            "originOf": [self.origin_name(self.origin_of_call(c)) for c in calls],
            "maxConn": mc,
            "maxKeep": mk,
            "expiry": _int(kw.get("keepalive_expiry"), "keepalive_expiry"),
            "poolTO": [_int((c.timeout or {}).get("pool"), "pool timeout") for c in calls],
            "mux": sorted(self.origin_name(i) for i in self.h2_origins),
            "muxGuess": guess,
            "noKeep": sorted(self.rid[n] for n in self.nokeep),
            "threads": bool(getattr(self.run, "threads", False)),
        }

    def conn_state(self, c):
        st = c["state"]
        if st not in STATE:
            return "weird"
        s = STATE[st]
        # a tunnel / SOCKS connection that still shows its proxy leg is "connecting"
        if self.proxy_origin is not None and c.get("info_origin") == self.proxy_origin and c["kind"].endswith(
            ("TunnelHTTPConnection", "Socks5Connection")
        ):
            if s in ("new", "active", "idle"):
                return "connecting"
        return s

    def obs(self, o):
        allc = {c["id"]: c for c in o["pool"] + o["evicted"]}
        n = max(allc) if allc else 0
        cs = []
        for i in range(1, n + 1):
            c = allc.get(i)
            if c is None or "idle" not in c:
                cs.append({"st": "weird", "mux": False, "cnt": 0, "idle": False, "av": False, "ex": False, "cl": False, "org": "", "xc": True})
                continue
            h = c["handles"]
            cs.append(
                {
                    "st": self.conn_state(c),
                    "mux": c["proto"] == "h2",
                    # (while a tunnel still shows its proxy leg the count is that of the CONNECT exchange)
                    "cnt": 0 if (self.conn_state(c) == "connecting" and STATE.get(c["state"]) != "connecting") else c["count"],
                    "idle": c["idle"],
                    "av": c["avail"],
                    "ex": c["expired"],
                    "cl": c["closed"],
                    "org": self.origin_name(h[0]) if len(h) == 1 else ("" if not h else "multi"),
                    "xc": bool(c.get("xc", True)),
                }
            )
        so = sorted({s["owner"] for s in o["streams"] if s["open"]})
        return {
            "pool": [c["id"] for c in o["pool"]],
            "cs": cs,
            "na": o["reqs"]["active"],
            "nq": o["reqs"]["queued"],
            "so": so,
            "clock": _int(o["clock"], "clock"),
            "tm": [_int(t, "timer") for t in o["timers"]],
        }

    def ret(self, ev):
        out = ev["out"]
        if out == "ok":
            return "ok"
        if out == "cancelled":
            return "cancelled"
        if ev.get("exc") == "PoolTimeout":
            return "timeout"
        return "exc"

    def encode(self):
        evs = []
        last = None
        marks = {}  # task -> ret
        got = set()
        route = {}
        nsent = {}
        rsent = {}
        tokok = {}
        bodyok = {}
        bend = {}
        closing_pool = False
        garbage = set()
        for e in self.run.events:
            k = e["ev"]
            if k == "Init":
                last = self.obs(e["obs"])
            elif k == "Return":
                marks[e["r"]] = self.ret(e)
                rsent[e["r"]] = e.get("nsent", 0)
            elif k == "Got":
                got.add(e["r"])
                route[e["r"]] = e.get("route", "ok")
                # the caller's OWN response: the token the server echoed for this call AND the status of
                # the FINAL response the server sent for it (never an interim one)
                call_ = self.run.calls[e["r"]]
                path_ = "/" + str(call_.url).split("://", 1)[-1].partition("/")[2] if isinstance(call_.url, str) else "/"
                want_status = 413 if path_.startswith("/early") else (101 if path_.startswith("/upgrade") else 200)
                tokok[e["r"]] = e.get("tok", "") == call_.tok and (e.get("status") in (None, want_status) or not isinstance(call_.url, str))
                nsent[e["r"]] = len(e.get("sent_on", []))
            elif k == "BodyEnd":
                bend[e["r"]] = "full" if e.get("complete") else "partial"
                # (bytes the driver injected itself into a close-delimited body are that body)
                bodyok[e["r"]] = bool(e.get("bodyok", True)) or e["r"] in garbage
            elif k == "Fault":
                if e.get("fault") == "Garbage":
                    garbage.add(e["r"])
                if e["r"] in self.rid:
                    evs.append({"e": "Fault", "r": self.rid[e["r"]], "inj": e.get("fault") != "collateral", "obs": last})
            elif k == "Cancel":
                evs.append({"e": "Cancel", "r": self.rid[e["r"]], "style": e["style"], "obs": last})
            elif k == "Tick":
                last = self.obs(e["obs"])
                evs.append({"e": "Tick", "t": _int(e["t"], "tick"), "obs": last})
            elif k == "PeerClose":
                last = self.obs(e["obs"])
                owner = 0
                for s in e["obs"]["streams"]:
                    if s["sid"] == e["sid"]:
                        owner = s["owner"]
                evs.append({"e": "PeerClose", "c": owner, "obs": last})
            elif k == "Step" and e["task"] == "closer":
                last = self.obs(e["obs"])
                if closing_pool:
                    evs.append({"e": "PoolClose", "obs": last})
                    closing_pool = False
            elif k == "PoolCloseStart":
                closing_pool = True
            elif k == "Step":
                last = self.obs(e["obs"])
                t = e["task"]
                evs.append({"e": "Q", "r": self.rid.get(t, 0), "ret": marks.pop(t, ""), "got": t in got, "bend": bend.pop(t, ""), "route": route.pop(t, ""), "nsent": nsent.pop(t, 0), "rsent": rsent.pop(t, 0), "tokok": tokok.pop(t, True), "bodyok": bodyok.pop(t, True), "obs": last})
                got.discard(t)
            elif k == "End":
                last = self.obs(e["obs"])
                gated = [self.rid[n] for n in self.run.waiting_gate if n in self.rid]
                net = sorted({self.rid[op.task] for op in self.run.net.pending if op.task in self.rid and (getattr(self.run, "threads", False) or (op.fut is not None and not op.fut.done()))})
                live = sorted(self.rid[n] for n in e.get("live", []) if n in self.rid)
                evs.append({"e": "End", "gated": gated, "netblocked": net, "live": live, "obs": last})
        if any(e["ev"] == "Livelock" for e in self.run.events) and len(evs) > 400:
            # the execution never quiesced (harness step limit): the first 400 quanta and the End
            # event are enough for TLC to reject it (somebody is still running at the end)
            evs = evs[:400] + [e for e in evs[-1:] if e["e"] == "End"]
        return {"cfg": self.cfg(), "ev": evs}


TRACE_CFG = """SPECIFICATION TSpec
CONSTANTS
  Req <- TrReq
  Conn <- TrConn
  Origin <- TrOrigin
  Cfgs <- TrCfgs
  None <- NoneC
  NoExpiry <- NoExpC
  NoTimeout <- NoTOC
  MaxClock = 1000
  Faults = 99
  Abandons = TRUE
  CancelStyles <- TrStyles
  WithPoolClose = TRUE
  Deviations <- TrDev
  K = {k}
  Relax <- {relax}
  DevChoices <- {choices}
CONSTRAINT Mark
POSTCONDITION Post
CHECK_DEADLOCK FALSE
"""

DEVIATIONS = [
    "KeepaliveCountsAll",
    "AbandonAssignedFresh",
    "TimeoutAfterAssign",
    "CancelAtGateLeavesNew",
    "EstabFailLeaksStream",
    "CancelInEstabLeaksStream",
    "NativeCancelInShield",
    "ReconnectOnFailed",
    "WaiterCancelFlagsFailed",
    "ActivateEvicted",
    "InitRetryOnClosed",
    "MuxCancelCorrupts",
    "MuxIdleWhileUsersWait",
    "SurplusCountsStale",
]  # same order as AllDevs in MCPoolTrace.tla


def trace_cfg(choices="ChoiceIntended", k=9, relax="TrRelax"):
    return TRACE_CFG.format(choices=choices, k=k, relax=relax)


def validate(traces, **kw):
    """Intended design only: one verdict per trace."""
    res, stats = tlc.validate_traces("MCPoolTrace", trace_cfg(), traces, nd=1, **kw)
    return [r[0] for r in res], stats


def diagnose(traces):
    """For traces the intended design rejects: which NAMED deviations of the specification
    (with the invariants they are known to break switched off) explain them?
    Round 1 (one TLC run): every single deviation, and all of them together.  Round 2 (only for
    traces that no single deviation explains but all together do): leave-one-out, which yields
    the set of deviations that are each necessary.
    Returns per trace: (sorted deviation names - alternatives if found in round 1, a necessary
    set if found in round 2, [] if unexplained -, verdict with all on, longest prefix, mode)."""
    if not traces:
        return []
    nd = len(DEVIATIONS)
    r1, _ = tlc.validate_traces("MCPoolTrace", trace_cfg("ChoiceSingles", relax="RelaxInv"), traces, nd=nd + 1)
    out = [None] * len(traces)
    need2 = []
    for i, row in enumerate(r1):
        ok = sorted(DEVIATIONS[j] for j in range(nd) if row[j][0] == "ACCEPT")
        allv = row[nd]
        if ok:
            out[i] = (ok, allv[0], allv[1], "single")
        elif allv[0] == "ACCEPT":
            need2.append(i)
        else:
            out[i] = ([], allv[0], allv[1], "unexplained")
    if need2:
        r2, _ = tlc.validate_traces("MCPoolTrace", trace_cfg("ChoiceLeaveOneOut", relax="RelaxInv"), [traces[i] for i in need2], nd=nd)
        for j, i in enumerate(need2):
            necessary = sorted(DEVIATIONS[x] for x in range(nd) if r2[j][x][0] != "ACCEPT")
            allv = r1[i][nd]
            out[i] = (necessary, allv[0], allv[1], "set")
    return out
