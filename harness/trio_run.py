"""The async pool under TRIO (the trio branch of httpcore/_synchronization.py: trio.Lock,
trio.Event, trio.Semaphore, trio.fail_after, trio cancel scopes) on the simulated network.

Same scenarios, same recording and the same trace format as driver.AsyncRun:
  * one `Step{task, observation}` per task step (trio's Instrument.after_task_step),
  * the driver is itself a trio task that waits until every other task is blocked
    (trio.testing.wait_all_tasks_blocked) and then applies ONE stimulus,
  * trio.testing.MockClock with manual jumps; trio's per-batch shuffling of runnable tasks is
    seeded, so a run is replayable."""
from __future__ import annotations

import random

import anyio
import httpcore
import trio
import trio.testing

from .driver import AsyncRun, default_decide
from .simnet import AsyncSimBackend, FakeSSLContext, SimNet, World
from .vloop import patch_httpcore_clock


class TrioFut:
    """What an operation's caller is parked on (stands in for the asyncio future)."""

    def __init__(self):
        self._ev = trio.Event()
        self._out = None

    def done(self):
        return self._out is not None

    def set_result(self, v):
        self._out = ("ok", v)
        self._ev.set()

    def set_exception(self, e):
        self._out = ("exc", e)
        self._ev.set()

    async def wait(self):
        await self._ev.wait()
        if self._out[0] == "exc":
            raise self._out[1]
        return self._out[1]


class _Loop:
    """The few attributes of the virtual asyncio loop that the shared recorder reads."""

    def __init__(self):
        self.vt = 0.0
        self._scheduled = []
        self.steps = 0


class _Instr(trio.abc.Instrument):
    def __init__(self, run):
        self.run = run

    def after_task_step(self, task):
        self.run._after_step(task)


class TrioRun:
    trio = True
    MAX_STEPS = 200000

    observe = AsyncRun.observe
    _conn_obs = AsyncRun._conn_obs
    cid = AsyncRun.cid
    exchange_clean = AsyncRun.exchange_clean
    streams_with_token = AsyncRun.streams_with_token
    route_of = AsyncRun.route_of
    hop_forms = AsyncRun.hop_forms
    _route_via_proxy = AsyncRun._route_via_proxy
    _origins_of_calls = AsyncRun._origins_of_calls
    snapshot = AsyncRun.snapshot
    event = AsyncRun.event
    _on_op = AsyncRun._on_op
    _caller = AsyncRun._caller
    idle_streams = AsyncRun.idle_streams

    def __init__(self, pool_kwargs, calls, world=None, seed=0):
        self.loop = _Loop()
        self.net = SimNet(world or World(), current_task=self._task_name)
        self.net.waiter_factory = TrioFut
        self.net.on_op = self._on_op
        self.backend = AsyncSimBackend(self.net)
        self.pool_kwargs = dict(pool_kwargs)
        self.calls = {c.name: c for c in calls}
        self.order = [c.name for c in calls]
        self.tasks = {}  # name -> "started"
        self.done = set()
        self.scopes = {}
        self.gates = {}
        self.waiting_gate = {}
        self.outcome = {}
        self.phase = {c.name: "init" for c in calls}
        self.events = []
        self.record = True
        self.cids = {}
        self.cobjs = {}
        self.inject = {}
        self.stuck = False
        self.errors = []
        self.last_obs = None
        self.decisions = []
        self.did_cancel = False
        self.cancelled = set()
        self.pos = 0
        self.seed = seed
        kw = dict(self.pool_kwargs)
        kw.setdefault("ssl_context", FakeSSLContext("origin"))
        kw["network_backend"] = self.backend
        self.pool = httpcore.AsyncConnectionPool(**kw)
        self.origins = self._origins_of_calls()
        from .driver import ind_origin_of

        self.origin_keys = [ind_origin_of(o) for o in self.origins]
        self.clock = trio.testing.MockClock(rate=0.0)
        self.t0 = self.clock.current_time()
        self._undo_clock = None

    # ---- identity ---------------------------------------------------------------
    def _task_name(self):
        try:
            return trio.lowlevel.current_task().name
        except RuntimeError:
            return "-"

    def live(self):
        return [n for n in self.tasks if n not in self.done]

    # ---- recorder ---------------------------------------------------------------
    def _after_step(self, task):
        self.loop.steps += 1
        if not self.record:
            return
        name = task.name
        if name == "driver":
            return
        self.loop.vt = self.clock.current_time() - self.t0
        obs = self.observe()
        if obs != self.last_obs or name in self.calls:
            self.events.append({"ev": "Step", "task": name, "obs": obs})
            self.last_obs = obs

    async def _gate(self, name, gate):
        if gate in self.calls[name].gates:
            ev = trio.Event()
            self.gates.setdefault(name, {})[gate] = ev
            self.waiting_gate[name] = gate
            try:
                await ev.wait()
            finally:
                self.waiting_gate.pop(name, None)

    async def _caller_task(self, name):
        try:
            await self._caller(name)
        finally:
            self.done.add(name)

    # ---- stimuli ------------------------------------------------------------------
    def enabled(self):
        en = []
        for n in self.order:
            if n not in self.tasks:
                en.append(("start", n))
                break
        for op in self.net.pending:
            if op.fut is not None and not op.fut.done() and self.net.ready(op):
                en.append(("op", op.seq))
        for n, g in list(self.waiting_gate.items()):
            en.append(("gate", n, g))
        d = trio.lowlevel.current_statistics().seconds_to_next_deadline
        if d != float("inf") and d > 0 and self.live():
            en.append(("tick", self.loop.vt + d))
        return en

    def apply(self, st):
        self.decisions.append(list(st))
        kind = st[0]
        if kind == "start":
            self.tasks[st[1]] = "started"
            self.event("Start", r=st[1])
            self.nursery.start_soon(self._caller_task, st[1], name=st[1])
        elif kind == "op":
            op = self.net.ops[st[1]]
            fault = st[2] if len(st) > 2 else None
            if fault:
                self.event("Fault", r=op.task, op=op.seq, kind=op.kind, fault=fault)
            out = self.net.resolve(op, fault=fault)
            if not op.fut.done():
                (op.fut.set_result if out[0] == "ok" else op.fut.set_exception)(out[1])
        elif kind == "gate":
            self.gates[st[1]].pop(st[2]).set()
        elif kind == "tick":
            self.clock.jump(st[1] - self.loop.vt)
            self.loop.vt = st[1]
            self.snapshot("Tick", t=st[1], injected=False)
        elif kind in ("cancel", "cancel_if_live"):
            name = st[1]
            if kind == "cancel_if_live" and (name not in self.tasks or name in self.done or name not in self.scopes or name in self.cancelled):
                self.decisions.pop()
                return
            self.did_cancel = True
            self.cancelled.add(name)
            self.event("Cancel", r=name, style="scope", where="", shielded=False, blocked=self._blocked_kind(name))
            self.scopes[name].cancel()
        elif kind == "peerclose":
            self.net.peer_close(st[1])
            self.snapshot("PeerClose", sid=st[1])
        else:
            raise AssertionError(st)

    def _blocked_kind(self, name):
        for op in self.net.pending:
            if op.task == name and op.fut is not None and not op.fut.done():
                return op.kind
        return "sync"

    # ---- the run -------------------------------------------------------------------
    async def _main(self, decide, max_choices):
        trio.lowlevel.current_task().name = "driver"
        self.t0 = self.clock.current_time()
        self._undo_clock = patch_httpcore_clock(lambda: self.clock.current_time() - self.t0)
        self.snapshot("Init")
        async with trio.open_nursery() as nursery:
            self.nursery = nursery
            n = 0
            while n < max_choices:
                await trio.testing.wait_all_tasks_blocked()
                if self.loop.steps >= self.MAX_STEPS:
                    self.stuck = True
                    break
                pre = self.inject.pop(self.pos, None)
                if pre:
                    for st in pre:
                        self.apply(tuple(st))
                    await trio.testing.wait_all_tasks_blocked()
                st = decide(self, self.enabled())
                if st is None:
                    break
                self.apply(tuple(st))
                self.pos += 1
                n += 1
            await trio.testing.wait_all_tasks_blocked()
            self.loop.vt = self.clock.current_time() - self.t0
            live = self.live()
            if live:
                self.event("Stuck", live=live, where={})
            self.snapshot("End", live=live)
            self.record = False
            nursery.cancel_scope.cancel()

    def run(self, decide=None, max_choices=3000):
        decide = decide or default_decide
        try:
            import trio._core._run as _r

            _r._r.seed(self.seed)  # trio shuffles each batch of runnable tasks
        except Exception:
            pass
        try:
            trio.run(self._main, decide, max_choices, clock=self.clock, instruments=[_Instr(self)])
        finally:
            self.record = False
            if self._undo_clock:
                self._undo_clock()
        return self

    def finish(self):
        if getattr(self, "harness_error", None) is not None:
            raise self.harness_error
        self.record = False
