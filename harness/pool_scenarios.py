"""Scenario families for the pool-level properties (C01 C04 C05 C06 C07 C09 C14 C16).
A scenario is (id, make() -> AsyncRun, encoder kwargs)."""
from __future__ import annotations

import httpcore

from .driver import AsyncRun, Call
from .peers import H11Peer, default_plan
from .simnet import World


def plan(req, idx):
    """Response plan keyed by the request target."""
    t = req.target or b"/"
    spec = default_plan(req, idx)
    if t.startswith(b"/close"):
        spec["close"] = True
    elif t.startswith(b"/big"):
        spec["body"] = (b"body-of-" + (req.token or b"?") + b"|") * 6
        spec["framing"] = "chunked"
        spec["chunks"] = [len(spec["body"]) // 3] * 3
    elif t.startswith(b"/http10"):
        spec["version"] = b"HTTP/1.0"
        spec["framing"] = "close"
    elif t.startswith(b"/eof"):
        spec["framing"] = "close"
    elif t.startswith(b"/upgrade"):
        # 101 Switching Protocols: the connection is handed over to the caller and never reused
        spec = {"status": 101, "reason": b"Switching Protocols", "headers": [(b"X-Tok", req.token or b"?"), (b"Connection", b"upgrade"), (b"Upgrade", b"verif")], "framing": "none", "body": b"", "upgrade": True}
    elif t.startswith(b"/interim"):
        # several interim responses before the final one (100, 103 with headers, 102)
        spec["interim"] = [(100, []), (103, [(b"Link", b"</style.css>; rel=preload")]), (102, [])]
    return spec


def no_keepalive(url):
    """Does the response plan for this URL forbid reuse of the connection?"""
    if isinstance(url, dict):
        t = url.get("target", "/")
        path = t if isinstance(t, str) else bytes(t).decode("latin1")
    else:
        path = "/" + url.split("://", 1)[1].partition("/")[2]
    return path.startswith(("/close", "/http10", "/eof", "/upgrade"))


def early(req):
    """An answer sent as soon as the request HEAD has arrived (before its body)."""
    if (req.target or b"").startswith(b"/early"):
        tok = req.token or b"?"
        return {"status": 413, "reason": b"Too Large", "headers": [(b"X-Tok", tok)], "body": b"body-of-" + tok, "framing": "cl"}
    return None


class PlanPeer(H11Peer):
    def __init__(self, rec=None, alpn=None):
        super().__init__(plan=plan, alpn=alpn)
        self.early = early


def world_h1(alpn="http/1.1"):
    return World(default=lambda rec: PlanPeer(rec, alpn=alpn))


class Scenario:
    def __init__(self, sid, pool_kwargs, calls, world=None, enc=None, big_cuts=False, skip=()):
        self.id = sid
        self.skip = set(skip)  # exploration strategies not applied to this scenario
        self.pool_kwargs = pool_kwargs
        self.calls = calls  # list of dicts for Call(**)
        self.world = world or world_h1
        self.enc = dict(enc or {})
        self.enc.setdefault("nokeep", [c["name"] for c in calls if no_keepalive(c["url"])])
        self.big_cuts = big_cuts

    def make(self):
        run = AsyncRun(self.pool_kwargs, [Call(**c) for c in self.calls], world=self.world())
        run.scenario_id = self.id
        return run

    def spec(self):
        return {"id": self.id, "pool": self.pool_kwargs, "calls": self.calls}


def c(name, url, **kw):
    d = {"name": name, "url": url}
    d.update(kw)
    return d


A = "http://a.test"
B = "http://b.test"
C = "http://c.test"
SA = "https://a.test"

SCENARIOS = {}


def add(s):
    SCENARIOS[s.id] = s
    return s


add(Scenario("h1-max1-AAB", dict(max_connections=1), [c("r1", A + "/"), c("r2", A + "/x"), c("r3", B + "/")]))
add(Scenario("h1-max1-AA", dict(max_connections=1), [c("r1", A + "/"), c("r2", A + "/x")]))
add(Scenario("h1-max1-A", dict(max_connections=1), [c("r1", A + "/")]))
add(Scenario("h1-max2-ABA-keep1", dict(max_connections=2, max_keepalive_connections=1), [c("r1", A + "/"), c("r2", B + "/"), c("r3", A + "/y")]))
add(Scenario("h1-max2-ABC-keep0", dict(max_connections=2, max_keepalive_connections=0), [c("r1", A + "/"), c("r2", B + "/"), c("r3", C + "/")]))
add(Scenario("h1-max2-AAAA", dict(max_connections=2), [c("r1", A + "/1"), c("r2", A + "/2"), c("r3", A + "/3"), c("r4", A + "/4")]))
add(Scenario("h1-max3-ABCAB", dict(max_connections=3, max_keepalive_connections=2), [c("r1", A + "/"), c("r2", B + "/"), c("r3", C + "/"), c("r4", A + "/4"), c("r5", B + "/5")]))
add(Scenario("h1-max1-close", dict(max_connections=1), [c("r1", A + "/close1"), c("r2", A + "/close2"), c("r3", A + "/3")]))
UPG = [(b"Connection", b"upgrade"), (b"Upgrade", b"verif")]
add(Scenario("h1-max1-upgrade", dict(max_connections=1), [c("r1", A + "/upgrade1", headers=UPG), c("r2", A + "/2"), c("r3", A + "/upgrade3", headers=UPG)]))
add(Scenario("h1-max1-abandon", dict(max_connections=1), [c("r1", A + "/big1", consume=("chunks", 1)), c("r2", A + "/big2", consume="none"), c("r3", A + "/3")]))
add(Scenario("h1-max1-interim", dict(max_connections=1), [c("r1", A + "/interim1"), c("r2", A + "/2"), c("r3", A + "/interim3", method="POST", headers=[(b"Content-Length", b"4")], content=[b"abcd"])]))
add(Scenario("h1-max1-http10", dict(max_connections=1), [c("r1", A + "/http10"), c("r2", A + "/2")]))
add(
    Scenario(
        "h1-max1-pto",
        dict(max_connections=1),
        [c("r1", A + "/", gates=("close",)), c("r2", A + "/x", timeout={"pool": 2}), c("r3", B + "/", timeout={"pool": 0})],
    )
)
add(
    Scenario(
        "h1-max1-pto-AB",
        dict(max_connections=1),
        [c("r1", A + "/", gates=("read",)), c("r2", B + "/x", timeout={"pool": 1}), c("r3", A + "/y", timeout={"pool": 3})],
    )
)
add(
    Scenario(
        "h1-guess-max2",
        dict(max_connections=2, http2=True),
        [c("r1", SA + "/1"), c("r2", SA + "/2"), c("r3", SA + "/3")],
    )
)
add(
    Scenario(
        "h1-guess-max1",
        dict(max_connections=1, http2=True),
        [c("r1", SA + "/1"), c("r2", SA + "/2"), c("r3", "https://b.test/3")],
    )
)
# a pool timeout that has to survive a RE-QUEUE: r2 is first handed the connection r1 is still establishing
# (HTTP/2 guess), refused when ALPN selects HTTP/1.1, and then waits in the queue with its pool timeout
add(
    Scenario(
        "h1-guess-max1-pto",
        dict(max_connections=1, http2=True),
        [c("r1", SA + "/1", gates=("close",)), c("r2", SA + "/2", timeout={"pool": 2}), c("r3", SA + "/3", timeout={"pool": 0})],
    )
)
add(Scenario("h1-tls-max1-AAB", dict(max_connections=1), [c("r1", SA + "/"), c("r2", SA + "/x"), c("r3", "https://b.test/")]))
add(
    Scenario(
        "h1-keep-expiry",
        dict(max_connections=2, keepalive_expiry=2),
        [c("r1", A + "/", gates=("start",)), c("r2", A + "/2", gates=("start",)), c("r3", B + "/3", gates=("start",)), c("r4", A + "/4", gates=("start",))],
    )
)
add(Scenario("h1-retries-max1-AA", dict(max_connections=1, retries=1), [c("r1", A + "/"), c("r2", A + "/x")]))
add(Scenario("h1-retries-max2-AB", dict(max_connections=2, retries=2), [c("r1", A + "/"), c("r2", B + "/x"), c("r3", A + "/y")]))
add(
    Scenario(
        "h1-max1-pto-zero",
        dict(max_connections=1),
        [c("r1", A + "/", timeout={"pool": 0}), c("r2", A + "/x", timeout={"pool": 0}, gates=("start",)), c("r3", B + "/y", timeout={"pool": 0}, gates=("start",))],
    )
)
add(Scenario("h1-origins-port", dict(max_connections=3), [c("r1", "http://a.test:8001/1"), c("r2", "http://a.test:8002/2"), c("r3", "http://a.test:8001/3"), c("r4", "http://a.test/4"), c("r5", "http://a.test:80/5")]))
add(Scenario("h1-origins-scheme", dict(max_connections=3), [c("r1", "http://a.test:8443/1"), c("r2", "https://a.test:8443/2"), c("r3", "http://a.test:8443/3"), c("r4", "wss://a.test:8443/4"), c("r5", "ws://a.test:8443/5")]))
add(Scenario("h1-origins-host", dict(max_connections=2), [c("r1", "https://a.test/1"), c("r2", "https://b.test/2"), c("r3", "https://a.test:443/3"), c("r4", "https://A.TEST/4")]))
# a host that is NOT ASCII can only be named with explicit URL components; the connection made for it can never be
# established (the host cannot be turned into text for the network back end): the request fails, and whatever the pool
# did to make room for that connection (evicting an idle one) must still be carried through
NA = {"scheme": "http", "host": [0x62, 0xFC, 0x63, 0x68, 0x65, 0x72, 0x2E, 0x74, 0x65, 0x73, 0x74], "port": 80, "target": "/n"}
add(Scenario("h1-max1-A-nonascii-A", dict(max_connections=1), [c("r1", A + "/"), c("r2", NA), c("r3", A + "/3")]))
add(Scenario("h1-max2-AB-nonascii-A", dict(max_connections=2, max_keepalive_connections=1), [c("r1", A + "/"), c("r2", B + "/"), c("r3", NA), c("r4", A + "/4")]))
add(Scenario("h1-max1-early", dict(max_connections=1), [c("r1", A + "/early1", method="POST", headers=[(b"Content-Length", b"40")], content=[b"0123456789"] * 4), c("r2", A + "/2"), c("r3", A + "/3")]))
add(Scenario("h1-max1-mixed-ends", dict(max_connections=1), [c("r1", A + "/big1", consume=("chunks", 2)), c("r2", A + "/close2"), c("r3", A + "/3"), c("r4", A + "/http10")]))
add(Scenario("h1-max2-AAAB-mixed", dict(max_connections=2), [c("r1", A + "/1"), c("r2", A + "/big2", consume="none"), c("r3", A + "/3"), c("r4", B + "/4")]))


# ---- pooled HTTP/2 connections (prior knowledge: http1=False, http2=True) ----------------
def h2plan(req):
    tok = req.token or b"?"
    t = req.target or b"/"
    spec = {"status": 200, "headers": [(b"x-tok", tok)], "body": b"body-of-" + tok}
    if t.startswith(b"/clbad"):
        # a server-side protocol violation the h2 library detects while reading
        spec["headers"].append((b"content-length", b"99"))
    return spec


def world_h2():
    from .peers import H2ServerPeer

    return World(default=lambda rec: H2ServerPeer(plan=h2plan))


H2 = dict(http1=False, http2=True)
H2SKIP = ("cancel-native", "random")
add(Scenario("h2-max1-AA", dict(max_connections=1, **H2), [c("r1", A + "/1"), c("r2", A + "/2")], world=world_h2, enc={"h2_origins": [0]}, skip=H2SKIP))
add(Scenario("h2-max1-BAB", dict(max_connections=1, **H2), [c("r1", B + "/1", gates=("read",)), c("r2", A + "/2"), c("r3", B + "/3")], world=world_h2, enc={"h2_origins": [0, 1]}, skip=H2SKIP + ("cancel-scope",)))
add(Scenario("h2-max1-AAB", dict(max_connections=1, **H2), [c("r1", A + "/1"), c("r2", A + "/2"), c("r3", B + "/3")], world=world_h2, enc={"h2_origins": [0, 1]}, skip=H2SKIP + ("cancel-scope",)))


# ---- connections through proxies (forwarding, CONNECT tunnel, SOCKS5) ----------------------
PROXY = "http://proxy.test:8080"
SOCKS = "socks5://proxy.test:1080"


def world_proxy():
    from .peers import TunnelPeer

    return World(default=lambda rec: TunnelPeer(inner_factory=lambda host, port: PlanPeer(), alpn="http/1.1"))


def world_socks():
    from .peers import SocksPeer

    return World(default=lambda rec: SocksPeer(inner_factory=lambda host, port: PlanPeer()))


def _proxy_kw(url, **kw):
    return dict(proxy=httpcore.Proxy(url), **kw)


PXSKIP = ("cancel-native", "random")
add(Scenario("fwd-max1-AAB", _proxy_kw(PROXY, max_connections=1), [c("r1", A + "/1"), c("r2", A + "/2"), c("r3", B + "/3")], world=world_proxy, enc={"proxy_origin": PROXY}, skip=PXSKIP))
add(Scenario("fwd-max1-AAA", _proxy_kw(PROXY, max_connections=1), [c("r1", A + "/1?q=1"), c("r2", A + "/2?q=2"), c("r3", A + "/3?q=3")], world=world_proxy, enc={"proxy_origin": PROXY}, skip=PXSKIP))
add(Scenario("tun-max1-AAB", _proxy_kw(PROXY, max_connections=1), [c("r1", SA + "/1"), c("r2", SA + "/2"), c("r3", "https://b.test/3")], world=world_proxy, enc={"proxy_origin": PROXY}, skip=PXSKIP))
add(Scenario("socks-max1-AAB", _proxy_kw(SOCKS, max_connections=1), [c("r1", SA + "/1"), c("r2", A + "/2"), c("r3", SA + "/3")], world=world_socks, enc={"proxy_origin": "socks5://proxy.test:1080"}, skip=PXSKIP))

# smaller proxy scenarios for the quick tier (two calls: establishment of every hop + one reuse / wait)
add(Scenario("fwd-max1-AA", _proxy_kw(PROXY, max_connections=1), [c("r1", A + "/1"), c("r2", A + "/2")], world=world_proxy, enc={"proxy_origin": PROXY}, skip=PXSKIP))
add(Scenario("socks-max1-AA", _proxy_kw(SOCKS, max_connections=1), [c("r1", SA + "/1"), c("r2", SA + "/2")], world=world_socks, enc={"proxy_origin": "socks5://proxy.test:1080"}, skip=PXSKIP))
# SOCKS5 with HTTP/2 enabled and an https origin: the pool guesses that the connecting connection will
# multiplex and assigns BOTH requests to it; the second one waits at the connect lock while the first
# negotiates (ALPN then selects HTTP/1.1)
add(Scenario("socks-guess-max1-AA", _proxy_kw(SOCKS, max_connections=1, http2=True), [c("r1", SA + "/1"), c("r2", SA + "/2")], world=world_socks, enc={"proxy_origin": "socks5://proxy.test:1080"}, skip=PXSKIP))


# ---- HTTP/2 negotiated by ALPN (https, http1 and http2 both enabled): the pool GUESSES that a
# connecting connection will multiplex and the guess comes true ---------------------------------
add(Scenario("h2-alpn-max1-AAB", dict(max_connections=1, http2=True), [c("r1", SA + "/1"), c("r2", SA + "/2"), c("r3", "https://b.test/3")], world=world_h2, enc={"h2_origins": [0, 1]}, skip=H2SKIP + ("cancel-scope",)))
add(Scenario("h2-alpn-max2-AAAB", dict(max_connections=2, http2=True), [c("r1", SA + "/1"), c("r2", SA + "/2"), c("r3", SA + "/3"), c("r4", "https://b.test/4")], world=world_h2, enc={"h2_origins": [0, 1]}, skip=H2SKIP + ("cancel-scope",)))


# ---- HTTPS proxy and origins sharing ONE SSLContext object (the hop to the proxy must still
# offer http/1.1 only, whatever another connection has configured meanwhile) ---------------------
def _shared_ctx_kw():
    from .simnet import FakeSSLContext

    ctx = FakeSSLContext("shared")
    return dict(proxy=httpcore.Proxy("https://proxy.test:8443", ssl_context=ctx), ssl_context=ctx, http2=True, max_connections=2)


add(Scenario("stun-sharedctx-max2-AB", _shared_ctx_kw(), [c("r1", SA + "/1"), c("r2", "https://b.test/2")], world=world_proxy, enc={"proxy_origin": "https://proxy.test:8443"}, skip=PXSKIP + ("cancel-scope", "fault", "late", "late+fault")))
