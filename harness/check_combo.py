"""Checks with two parts (an Establish part and a Pool part).

C10 = which stream a request is written to (Establish: endpoint / TLS / SNI / ALPN / protocol of
every connection type) + routing inside the pool over origins that differ in one component.
C01 = response ownership and the reuse gate on pooled HTTP/1.1 connections (Pool) + stream
isolation on a multiplexed HTTP/2 connection (H2Wire).
C14 = at-most-once on the wire (Pool: retry only before anything was written) + GOAWAY rules (H2Wire).
C16 = operation timeouts (Establish: every operation carries the right configured value) +
pool timeout (Pool: PoolTimeout exactly at the deadline, only for a request without a
connection; zero timeout succeeds when no waiting is needed) + the exchange phase (OpTimeouts:
every read / write of request, interim responses, head and body, HTTP/1.1 and HTTP/2)."""
from . import check_establish, check_pool
from .checklib import Check


PARTS = {
    "C03": ("reqwire", "pool", "h2"),
    "C01": ("pool", "h2"),
    "C06": ("pool", "establish"),
    "C10": ("establish", "pool"),
    "C11": ("establish", "pool"),
    "C14": ("pool", "h2"),
    "C16": ("establish", "pool", "exchange"),
}


def run(prop, tier):
    from . import check_h2

    from . import exchange

    from . import check_reqwire

    mods = {"reqwire": check_reqwire, "pool": check_pool, "establish": check_establish, "h2": check_h2, "exchange": exchange}
    chk = Check(prop, tier, "model_checking")
    covs = {}
    for part in PARTS[prop]:
        chk.coverage = {}
        mods[part].run_into(chk, prop, tier)
        covs[part] = dict(chk.coverage)
    cov = {}
    for k in ("states", "transitions", "evaluations", "distinct_nontrivial", "traces_validated_against_impl", "traces_rejected"):
        cov[k] = sum(c.get(k, 0) for c in covs.values())
    cov["rule"] = " | ".join(f"{p} part: " + c.get("rule", "") for p, c in covs.items())
    cov["samples"] = [s for c in covs.values() for s in c.get("samples", [])[:2]]
    for p, c in covs.items():
        cov[p + "_part"] = {k: v for k, v in c.items() if k != "samples"}
    cov["checker_cmd"] = " ; ".join(c.get("checker_cmd", "") for c in covs.values())
    cov["trusted_base"] = sorted({x for c in covs.values() for x in c.get("trusted_base", [])})
    chk.coverage = cov
    return chk.finish()
