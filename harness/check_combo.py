"""Checks with two parts (an Establish part and a Pool part).

C10 = which stream a request is written to (Establish: endpoint / TLS / SNI / ALPN / protocol of
every connection type) + routing inside the pool over origins that differ in one component.
C16 = operation timeouts (Establish: every operation carries the right configured value) +
pool timeout (Pool: PoolTimeout exactly at the deadline, only for a request without a
connection; zero timeout succeeds when no waiting is needed)."""
from . import check_establish, check_pool
from .checklib import Check


def run(prop, tier):
    chk = Check(prop, tier, "model_checking")
    check_establish.run_into(chk, prop, tier)
    est = dict(chk.coverage)
    chk.coverage = {}
    check_pool.run_into(chk, prop, tier)
    pool = dict(chk.coverage)
    cov = {}
    for k in ("states", "transitions", "evaluations", "distinct_nontrivial", "traces_validated_against_impl", "traces_rejected"):
        cov[k] = est.get(k, 0) + pool.get(k, 0)
    cov["rule"] = "operation logs (Establish part): " + est.get("rule", "") + " | pool executions (Pool part): " + pool.get("rule", "")
    cov["samples"] = est.get("samples", [])[:2] + pool.get("samples", [])[:2]
    cov["establish_part"] = {k: v for k, v in est.items() if k != "samples"}
    cov["pool_part"] = {k: v for k, v in pool.items() if k != "samples"}
    cov["checker_cmd"] = est.get("checker_cmd", "") + " ; " + pool.get("checker_cmd", "")
    cov["trusted_base"] = sorted(set(est.get("trusted_base", []) + pool.get("trusted_base", [])))
    chk.coverage = cov
    return chk.finish()
