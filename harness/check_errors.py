"""C15 with spec/Errors.tla: inputs of every malformation class at every stage (from scratch
and by mutating valid conversations), every backend exception at every operation, invalid
requests; each is run through the real pool and TLC judges the class of what the caller saw
against the taxonomy (ErrorsTrace).  An exploration with a TLA+ oracle, not a proof."""
from __future__ import annotations

import random
import struct

import httpcore

from . import tlc
from .checklib import Check, seed
from .peers import H11Peer, H2ServerPeer, SocksPeer, TunnelPeer
from .simnet import FakeSSLContext, SimBackend, SimNet, World, WouldHang


class RawPeer:
    """Sends fixed bytes once the client has written something, then closes."""

    def __init__(self, blob, after=1, alpn=None):
        self.blob = blob
        self.n = 0
        self.after = after
        self.closed = False
        self.alpn = alpn
        self.sent = False

    def on_tls(self, sni, offer):
        return self.alpn if self.alpn in offer else ("http/1.1" if "http/1.1" in offer else None)

    def feed(self, data):
        self.n += 1
        if self.n >= self.after and not self.sent:
            self.sent = True
            self.closed = True
            return self.blob
        return b""


def call(pool, method="GET", url="http://origin.test/x", headers=None, content=None, ext=None):
    try:
        resp = pool.request(method, url, headers=headers or [(b"Host", b"origin.test")], content=content, extensions=ext)
        return {"cls": "ok", "mod": "", "hang": False, "status": resp.status}
    except WouldHang:
        return {"cls": "hang", "mod": "", "hang": True}
    except BaseException as e:  # noqa
        return {"cls": type(e).__name__, "mod": type(e).__module__.split(".")[0], "hang": False, "msg": str(e)[:80]}


def run_h11(blob):
    net = SimNet(World(default=lambda rec: RawPeer(blob)))
    pool = httpcore.ConnectionPool(network_backend=SimBackend(net))
    return call(pool)


def raw_frame(ftype, flags, sid, payload):
    return struct.pack(">I", len(payload))[1:] + bytes([ftype, flags]) + struct.pack(">I", sid) + payload


def h2_blob(items):
    """Server byte stream from hyperframe frames / raw bytes."""
    out = b""
    for it in items:
        out += it if isinstance(it, (bytes, bytearray)) else it.serialize()
    return out


class RawH2Peer:
    """Sends fixed bytes once the client's request is complete (END_STREAM seen), then closes."""

    def __init__(self, blob):
        from .peers import H2Decoder

        self.blob = blob
        self.dec = H2Decoder()
        self.closed = False
        self.sent = False

    def on_tls(self, sni, offer):
        return "h2" if "h2" in offer else None

    def feed(self, data):
        self.dec.feed(data)
        if self.dec.ended and not self.sent:
            self.sent = True
            self.closed = True
            return self.blob
        return b""


class RawH2SharedPeer(RawH2Peer):
    """For TWO callers multiplexed on the connection: the first two frames of the blob (SETTINGS, ACK) are
    sent as soon as the client has spoken, the rest once both requests are complete; then it closes."""

    def __init__(self, blob):
        super().__init__(blob)
        offs = frame_offsets(blob)
        cut = offs[1] if len(offs) >= 2 else len(blob)
        self.first, self.rest = blob[:cut], blob[cut:]
        # (a SETTINGS frame that allows concurrent streams: the client keeps to ONE stream until it is told)
        import hyperframe.frame as hf

        f = hf.SettingsFrame(0)
        f.settings = {hf.SettingsFrame.MAX_CONCURRENT_STREAMS: 100}
        a = hf.SettingsFrame(0)
        a.flags.add("ACK")
        self.first = f.serialize() + a.serialize()
        self.greeted = False

    def feed(self, data):
        self.dec.feed(data)
        out = b""
        if not self.greeted and self.dec.preface:
            self.greeted = True
            out += self.first
        if len(self.dec.ended) >= 2 and not self.sent:
            self.sent = True
            self.closed = True
            out += self.rest
        return out


def run_h2_shared(blob):
    """-> [outcome of caller 1, outcome of caller 2]: two concurrent requests on ONE HTTP/2 connection of the
    async pool; the peer's (malformed) answer arrives when both are under way, so whichever of them reads it,
    the OTHER one meets the broken connection afterwards."""
    from .simnet import AsyncSimBackend
    from .vloop import VLoop

    loop = VLoop()
    loop.enter()
    made = []

    def factory(rec):
        # (a request that the broken connection REFUSED - GOAWAY below its stream id - is re-sent on a new
        #  connection: that one is served by a well-behaved server)
        from .peers import H2ServerPeer

        made.append(1)
        return RawH2SharedPeer(blob) if len(made) == 1 else H2ServerPeer()

    net = SimNet(World(default=factory), current_task=lambda: "r1")
    pool = httpcore.AsyncConnectionPool(network_backend=AsyncSimBackend(net), http1=False, http2=True, max_connections=2)
    outs = [None, None]

    async def one(i):
        try:
            resp = await pool.request("GET", "http://origin.test/%d" % i, headers=[(b"Host", b"origin.test")])
            outs[i] = {"cls": "ok", "mod": "", "hang": False, "status": resp.status}
        except BaseException as e:  # noqa
            if outs[i] is None:
                outs[i] = {"cls": type(e).__name__, "mod": type(e).__module__.split(".")[0], "hang": False, "msg": str(e)[:80]}

    ts = [loop.create_task(one(0)), loop.create_task(one(1))]
    for _ in range(20000):
        while loop.step() is not False:
            pass
        if all(t.done() for t in ts):
            break
        ready = [op for op in net.pending if op.fut is not None and not op.fut.done() and net.ready(op)]
        if not ready:
            break
        op = ready[0]
        res = net.resolve(op)
        (op.fut.set_result if res[0] == "ok" else op.fut.set_exception)(res[1])
    for i, t in enumerate(ts):
        if not t.done():
            outs[i] = {"cls": "hang", "mod": "", "hang": True}
            t.cancel()
    while loop.step() is not False:
        pass
    loop.shutdown()
    return outs


def frame_offsets(blob):
    out = []
    pos = 0
    while pos + 9 <= len(blob):
        ln = int.from_bytes(blob[pos : pos + 3], "big")
        pos += 9 + ln
        if pos < len(blob):
            out.append(pos)
    return out


def run_h2(blob, after=3, frame_cuts=False):
    # the client writes preface+SETTINGS(+WINDOW_UPDATE) and then the request; answer after the request
    def factory(rec):
        if frame_cuts:
            rec.cuts = frame_offsets(blob)
        return RawH2Peer(blob)

    net = SimNet(World(default=factory))
    pool = httpcore.ConnectionPool(network_backend=SimBackend(net), http1=False, http2=True)
    return call(pool)


def valid_h11_conversations():
    return [
        b"HTTP/1.1 200 OK\r\nContent-Length: 5\r\nX-A: 1\r\n\r\nhello",
        b"HTTP/1.1 200 OK\r\nTransfer-Encoding: chunked\r\n\r\n3\r\nabc\r\n2\r\nde\r\n0\r\n\r\n",
        b"HTTP/1.1 103 Early Hints\r\nLink: </a>\r\n\r\nHTTP/1.1 404 Not Found\r\nContent-Length: 0\r\n\r\n",
        b"HTTP/1.0 200 OK\r\nX-A: 1\r\n\r\nclose-delimited body",
    ]


def h11_scratch():
    big = b"HTTP/1.1 200 OK\r\nX-Big: " + b"a" * (101 * 1024) + b"\r\n\r\n"
    yield "h11-head", "malformed", b"garbage garbage\r\n\r\n"
    yield "h11-head", "malformed", b"HTTP/1.1 abc OK\r\n\r\n"
    yield "h11-head", "malformed", b"HTTP/9.9.9 200 OK\r\n\r\n"
    yield "h11-head", "malformed", b"HTTP/1.1 200 OK\r\nno colon here\r\n\r\n"
    yield "h11-head", "malformed", b"HTTP/1.1 200 OK\r\nX A: 1\r\n\r\n"
    yield "h11-head", "malformed", b"HTTP/1.1 200 OK\r\n X-Fold: 1\r\n\r\n"
    yield "h11-head", "malformed", b"HTTP/1.1 200 OK\r\nContent-Length: x\r\n\r\n"
    yield "h11-head", "malformed", b"HTTP/1.1 200 OK\r\nContent-Length: 1\r\nContent-Length: 2\r\n\r\nab"
    yield "h11-head", "malformed", big
    yield "h11-head", "malformed", b"\x00\x01\x02\x03\xff\xfe"
    yield "h11-head", "eof", b""
    yield "h11-head", "eof", b"HTTP/1.1 200 OK\r\nX-A:"
    yield "h11-body", "malformed", b"HTTP/1.1 200 OK\r\nTransfer-Encoding: chunked\r\n\r\nzz\r\nabc\r\n0\r\n\r\n"
    yield "h11-body", "malformed", b"HTTP/1.1 200 OK\r\nTransfer-Encoding: chunked\r\n\r\n3\r\nabcXX2\r\nde\r\n0\r\n\r\n"
    yield "h11-body", "malformed", b"HTTP/1.1 200 OK\r\nTransfer-Encoding: chunked\r\n\r\n" + b"f" * 30 + b"\r\nabc"
    yield "h11-body", "eof", b"HTTP/1.1 200 OK\r\nContent-Length: 10\r\n\r\nabc"
    yield "h11-body", "eof", b"HTTP/1.1 200 OK\r\nTransfer-Encoding: chunked\r\n\r\n5\r\nab"


def h2_scratch():
    import hyperframe.frame as hf
    from hpack import Encoder

    enc = Encoder()

    def settings(**kw):
        f = hf.SettingsFrame(0)
        f.settings = kw.get("settings", {})
        if kw.get("ack"):
            f.flags.add("ACK")
        return f

    def headers(sid, hs, end=False, end_headers=True, encoder=enc):
        f = hf.HeadersFrame(sid)
        f.data = encoder.encode(hs)
        if end_headers:
            f.flags.add("END_HEADERS")
        if end:
            f.flags.add("END_STREAM")
        return f

    def data(sid, b, end=False):
        f = hf.DataFrame(sid)
        f.data = b
        if end:
            f.flags.add("END_STREAM")
        return f

    ok_head = [(":status", "200"), ("content-type", "text/plain")]
    S = settings()
    A = settings(ack=True)
    yield "h2-preface", "malformed", b"HTTP/1.1 400 Bad Request\r\nContent-Length: 0\r\n\r\n"
    yield "h2-preface", "malformed", b"\x00\x00\x05\x04\x00\x00\x00\x00\x00abcde"  # SETTINGS with bad length
    yield "h2-preface", "eof", b""
    yield "h2-preface", "malformed", h2_blob([data(1, b"early", end=True)])
    yield "h2-frames", "malformed", h2_blob([S, A, raw_frame(0, 0, 0, b"on stream zero")])
    yield "h2-frames", "malformed", h2_blob([S, A, headers(2, ok_head, end=True, encoder=Encoder())])
    yield "h2-frames", "malformed", h2_blob([S, A, data(1, b"data before headers", end=True)])
    wu = hf.WindowUpdateFrame(1)
    wu.window_increment = 1
    bad_wu = bytearray(wu.serialize())
    bad_wu[-4:] = b"\x00\x00\x00\x00"
    yield "h2-frames", "malformed", h2_blob([S, A, bytes(bad_wu)])
    ping = hf.PingFrame(0)
    ping.opaque_data = b"12345678"
    bp = bytearray(ping.serialize())
    bp[2] = 6  # wrong length
    yield "h2-frames", "malformed", h2_blob([S, A, bytes(bp[: 9 + 6])])
    yield "h2-frames", "malformed", h2_blob([S, A, b"\x00\x40\x01\x00\x00\x00\x00\x00\x01" + b"x" * 16385])  # larger than max frame size
    e2 = Encoder()
    yield "h2-frames", "malformed", h2_blob([S, A, headers(1, [(":status", "200"), ("content-length", "10")], encoder=e2), data(1, b"short", end=True)])
    e3 = Encoder()
    yield "h2-frames", "malformed", h2_blob([S, A, headers(1, ok_head, encoder=e3), data(1, b"abc"), headers(1, ok_head, encoder=e3)])
    rst = hf.RstStreamFrame(1)
    rst.error_code = 8
    e4 = Encoder()
    yield "h2-frames", "malformed", h2_blob([S, A, headers(1, ok_head, encoder=e4), rst])
    yield "h2-frames", "malformed", h2_blob([S, A, rst])
    # RST_STREAM with every error code after the response head / in the middle of the body
    for code in range(0, 14):
        r2 = hf.RstStreamFrame(1)
        r2.error_code = code
        ea, eb = Encoder(), Encoder()
        yield "h2-frames", "reset", h2_blob([S, A, headers(1, ok_head, encoder=ea), r2])
        yield "h2-frames", "reset", h2_blob([S, A, headers(1, [(":status", "200"), ("content-length", "10")], encoder=eb), data(1, b"parti"), r2])
    go = hf.GoAwayFrame(0)
    go.last_stream_id = 1
    go.error_code = 1
    yield "h2-frames", "malformed", h2_blob([S, A, go])
    pp = hf.PushPromiseFrame(1)
    pp.promised_stream_id = 2
    pp.data = Encoder().encode([(":method", "GET"), (":path", "/"), (":scheme", "http"), (":authority", "a")])
    pp.flags.add("END_HEADERS")
    yield "h2-frames", "malformed", h2_blob([S, A, pp])
    hb = hf.HeadersFrame(1)
    hb.data = b"\xff\xff\xff\xff\xff\xff"
    hb.flags.add("END_HEADERS")
    yield "h2-hpack", "malformed", h2_blob([S, A, hb])
    hb2 = hf.HeadersFrame(1)
    hb2.data = b"\xbe"  # index into an empty dynamic table
    hb2.flags.add("END_HEADERS")
    yield "h2-hpack", "malformed", h2_blob([S, A, hb2])
    yield "h2-status", "malformed", h2_blob([S, A, headers(1, [(":status", "abc")], end=True, encoder=Encoder())])
    yield "h2-status", "malformed", h2_blob([S, A, headers(1, [(":status", "")], end=True, encoder=Encoder())])
    yield "h2-frames", "eof", h2_blob([S, A])
    e5 = Encoder()
    yield "h2-frames", "eof", h2_blob([S, A, headers(1, ok_head, encoder=e5), data(1, b"partial")])


def valid_h2_blob():
    """A well-formed server byte stream answering one GET (produced with the h2 library)."""
    p = H2ServerPeer()
    import h2.connection

    c = h2.connection.H2Connection()
    c.initiate_connection()
    c.send_headers(1, [(":method", "GET"), (":authority", "a"), (":scheme", "http"), (":path", "/")], end_stream=True)
    return p.feed(c.data_to_send())


def mutate(blob, rng, k):
    kind = rng.choice(["flip", "trunc", "insert", "dup", "zero"])
    b = bytearray(blob)
    if not b:
        return bytes(b)
    p = rng.randrange(len(b))
    if kind == "flip":
        b[p] ^= 1 << rng.randrange(8)
    elif kind == "trunc":
        b = b[:p]
    elif kind == "insert":
        b[p:p] = bytes(rng.randrange(256) for _ in range(rng.randrange(1, 4)))
    elif kind == "dup":
        b[p:p] = b[p : p + rng.randrange(1, 6)]
    else:
        b[p] = 0
    return bytes(b)


class ClosingSocksPeer(SocksPeer):
    """A SOCKS peer that hangs up right after a scripted reply (the input has ended)."""

    def feed(self, data):
        before = self.stage
        out = super().feed(data)
        if self.raw and before != "tunnel" and any(k in before or before == k for k in self.raw):
            if self.stage in ("dead",) or out == self.raw.get(before, None):
                self.closed = True
        return out


def run_socks(raw, auth=False, scheme="http"):
    net = SimNet(World(default=lambda rec: ClosingSocksPeer(raw=raw)))
    kw = {"auth": (b"u", b"p")} if auth else {}
    pool = httpcore.ConnectionPool(network_backend=SimBackend(net), proxy=httpcore.Proxy("socks5://proxy.test:1080", **kw), ssl_context=FakeSSLContext())
    return call(pool, url=f"{scheme}://origin.test/x")


def socks_cases(rng, quick):
    # greeting replies
    for b in [b"\x04\x00", b"\x05", b"", b"\x05\xff", b"\x05\x02", b"\x05\x01", b"\x00\x00", b"\x05\x00\x00", b"\xff" * 5]:
        cause = "eof" if b == b"" else ("refused" if b in (b"\x05\xff", b"\x05\x02", b"\x05\x01") else "malformed")
        if b == b"\x05\x00\x00":
            cause = "mutated"
        yield "socks-greet", cause, {"greet": b}, False
    for b in [b"\x01\x01", b"\x01", b"", b"\x05\x00", b"\x01\xff", b"\x00\x00"]:
        cause = "eof" if b == b"" else ("refused" if b in (b"\x01\x01", b"\x01\xff") else "malformed")
        if b == b"\x05\x00":
            cause = "mutated"
        yield "socks-auth", cause, {"auth": b}, True
    for code in range(1, 10):
        yield "socks-connect", "refused", {"connect": bytes([5, code, 0, 1, 0, 0, 0, 0, 0, 0])}, False
    for b in [b"", b"\x05", b"\x05\x00\x00", b"\x05\x00\x00\x01\x00\x00", b"\x04\x00\x00\x01\x00\x00\x00\x00\x00\x00", b"\x05\x00\x00\x09\x00\x00\x00\x00\x00\x00", b"\x05\x00\x00\x03\xff" + b"a" * 10, b"\x00" * 10, b"\x05\x00\x01\x01\x00\x00\x00\x00\x00\x00"]:
        cause = "eof" if b == b"" else "malformed"
        yield "socks-connect", cause, {"connect": b}, False
    n = 40 if quick else 400
    for _ in range(n):
        stage = rng.choice(["greet", "auth", "connect"])
        b = bytes(rng.randrange(256) for _ in range(rng.randrange(1, 12)))
        yield "socks-" + stage, "mutated", {stage: b}, stage == "auth"


def run_connect(blob):
    def factory(rec):
        return RawPeer(blob)

    net = SimNet(World(default=factory))
    pool = httpcore.ConnectionPool(network_backend=SimBackend(net), proxy=httpcore.Proxy("http://proxy.test:8080"), ssl_context=FakeSSLContext())
    return call(pool, url="https://origin.test/x")


def backend_cases(quick):
    """Every backend exception of every documented kind at every operation of a plain exchange."""
    kinds = {"connect_tcp": ["ConnectError", "ConnectTimeout"], "start_tls": ["ConnectError", "ConnectTimeout"], "read": ["ReadError", "ReadTimeout"], "write": ["WriteError", "WriteTimeout"]}
    for scheme, h2 in (("https", False), ("https", True), ("http", False)):
        # count the operations of the fault-free run
        def make():
            peers = []

            def factory(rec):
                p = H2ServerPeer() if h2 else H11Peer()
                if h2:
                    p.alpn_choice = "h2"
                peers.append(p)
                return p

            net = SimNet(World(default=factory))
            pool = httpcore.ConnectionPool(network_backend=SimBackend(net), ssl_context=FakeSSLContext(), http2=h2)
            return net, pool

        net, pool = make()
        call(pool, method="POST", url=f"{scheme}://origin.test/x", content=b"0123456789")
        ops = [(op.seq, op.kind) for op in net.ops if op.kind in kinds and (op.kind != "write" or op.args.get("data"))]
        for seq, kind in ops:
            for f in kinds[kind]:
                net, pool = make()
                net.fault_plan[seq] = f
                o = call(pool, method="POST", url=f"{scheme}://origin.test/x", content=b"0123456789")
                yield "backend", "inject:" + f, o, {"op": seq, "kind": kind, "h2": h2, "scheme": scheme}


def request_cases():
    net_pool = lambda: httpcore.ConnectionPool(network_backend=SimBackend(SimNet(World(default=lambda rec: H11Peer()))))
    yield "request", "invalid-request", call(net_pool(), method="GE T"), "bad method"
    yield "request", "invalid-request", call(net_pool(), headers=[(b"Host", b"a"), (b"X A", b"1")]), "bad header name"
    yield "request", "invalid-request", call(net_pool(), headers=[(b"Host", b"a"), (b"X-A", b"a\nb")]), "bad header value"
    yield "request", "invalid-request", call(net_pool(), method="POST", headers=[(b"Host", b"a"), (b"Content-Length", b"3")], content=b"too long body"), "declared length smaller than the body"
    yield "request", "invalid-request", call(net_pool(), method="POST", headers=[(b"Host", b"a"), (b"Content-Length", b"30")], content=b"short"), "declared length larger than the body"
    # the same over HTTP/2, and a hand-built Request (pool.handle_request: no defaults are added) without Host
    from .peers import H2ServerPeer

    h2_pool = lambda: httpcore.ConnectionPool(network_backend=SimBackend(SimNet(World(default=lambda rec: H2ServerPeer()))), http1=False, http2=True)

    def handle(pool, req):
        try:
            resp = pool.handle_request(req)
            resp.read()
            resp.close()
            return {"cls": "ok", "mod": "", "hang": False, "status": resp.status}
        except WouldHang:
            return {"cls": "hang", "mod": "", "hang": True}
        except BaseException as e:  # noqa
            return {"cls": type(e).__name__, "mod": type(e).__module__.split(".")[0], "hang": False, "msg": str(e)[:80]}

    yield "request", "invalid-request", call(h2_pool(), headers=[(b"Host", b"a"), (b"TE", b"gzip")]), "HTTP/2: TE other than trailers"
    yield "request", "invalid-request", call(h2_pool(), method="POST", headers=[(b"Host", b"a"), (b"Content-Length", b"3")], content=b"too long body"), "HTTP/2: declared length smaller than the body"
    yield "request", "invalid-request", handle(net_pool(), httpcore.Request("GET", "http://origin.test/x", headers=[(b"X-A", b"1")])), "HTTP/1.1: hand-built request without Host"
    yield "request", "invalid-request", handle(h2_pool(), httpcore.Request("GET", "http://origin.test/x", headers=[(b"X-A", b"1")])), "HTTP/2: hand-built request without Host"
    yield "request", "invalid-request", handle(h2_pool(), httpcore.Request("GET", "http://origin.test/x", headers=[])), "HTTP/2: hand-built request without any header"
    yield "request", "unsupported-scheme", call(net_pool(), url="ftp://origin.test/x"), "ftp scheme"
    yield "request", "unsupported-scheme", call(net_pool(), url=httpcore.URL(scheme=b"", host=b"a", target=b"/")), "empty scheme"


def cfg(accept="NoAccept"):
    return f"SPECIFICATION TSpec\nCONSTANTS\n Accept <- {accept}\nCONSTRAINT Mark\nPOSTCONDITION Post\nCHECK_DEADLOCK FALSE\n"


def validate(traces, accept="NoAccept"):
    body = [{"stage": t["stage"], "cause": t["cause"], "cls": t["cls"], "mod": t["mod"], "hang": t["hang"]} for t in traces]
    res, stats = tlc.validate_traces("MCErrorsTrace", cfg(accept), body, nd=1)
    return [r[0] for r in res], stats


DEVS = {"A1": "SocksLibraryErrors", "A2": "H2LibraryErrorInBody", "A3": "PeerErrorReportedLocal", "A4": "StatusNotNumeric", "A5": "H2BodyLengthLeftToPeer"}


def run(prop, tier):
    chk = Check(prop, tier, "exploration")
    rng = random.Random(seed())
    quick = tier == "quick"
    tlc.sany("MCErrors.tla")
    tlc.sany("MCErrorsTrace.tla")
    res = tlc.model_check("MCErrors", "SPECIFICATION Spec\nINVARIANT Closed\n", tag="mcErr")
    if not res["ok"]:
        raise tlc.MachineryError("the taxonomy is not closed under Documented:\n" + "\n".join(res["errors"][:3]))
    obs = []

    def add(stage, cause, o, detail):
        d = {"stage": stage, "cause": cause, "cls": o["cls"], "mod": o.get("mod", ""), "hang": bool(o.get("hang")), "detail": detail, "msg": o.get("msg", "")}
        obs.append(d)

    for stage, cause, blob in h11_scratch():
        add(stage, cause, run_h11(blob), repr(blob[:60]))
    nmut = 150 if quick else 3000
    convs = valid_h11_conversations()
    for k in range(nmut):
        base = rng.choice(convs)
        m = mutate(base, rng, k)
        if rng.random() < 0.3:
            m = mutate(m, rng, k)
        add("h11-head" if m[:20] != base[:20] else "h11-body", "mutated", run_h11(m), repr(m[:80]))
    for stage, cause, blob in h2_scratch():
        add(stage, cause, run_h2(blob), repr(blob[:40]))
        if stage in ("h2-frames", "h2-hpack", "h2-status") and cause in ("malformed", "eof"):
            # the same answer while TWO callers share the connection: whoever reads it, the other one meets
            # the broken connection afterwards - both outcomes are judged (stage h2-shared)
            for k, o in enumerate(run_h2_shared(blob)):
                add("h2-shared", "malformed", o, f"two callers, caller {k + 1}: " + repr(blob[:40]))
        # the same bytes delivered frame by frame: the error may then surface while the BODY is read
        add(stage, cause, run_h2(blob, frame_cuts=True), "frame by frame: " + repr(blob[:40]))
    vb = valid_h2_blob()
    for k in range(200 if quick else 4000):
        m = mutate(vb, rng, k)
        add("h2-frames", "mutated", run_h2(m), "mutated valid HTTP/2 answer: " + repr(m[:40]))
    for stage, cause, raw, auth in socks_cases(rng, quick):
        add(stage, cause, run_socks(raw, auth=auth), repr(raw))
    for status in (100, 199, 300, 301, 403, 407, 500, 502, 600):
        add("connect-reply", "refused" if status >= 200 else "eof", run_connect(b"HTTP/1.1 %d Whatever\r\nContent-Length: 0\r\n\r\n" % status), f"CONNECT answered {status}")
    add("connect-reply", "refused", run_connect(b"HTTP/1.1 407 Auth\xe9 requise\r\nContent-Length: 0\r\n\r\n"), "non-ASCII reason phrase")
    for blob in [b"", b"garbage\r\n\r\n", b"HTTP/1.1 200", b"\x00\xff\x00"]:
        add("connect-reply", "eof" if blob in (b"", b"HTTP/1.1 200") else "malformed", run_connect(blob), repr(blob))
    for k in range(30 if quick else 300):
        m = mutate(b"HTTP/1.1 200 Connection established\r\nX-P: 1\r\n\r\n", rng, k)
        add("connect-reply", "mutated", run_connect(m), repr(m))
    for stage, cause, o, detail in backend_cases(quick):
        add(stage, cause, o, detail)
    for stage, cause, o, detail in request_cases():
        add(stage, cause, o, detail)
    verdicts, stats = validate(obs)
    rejected = [(o, v) for o, v in zip(obs, verdicts) if v[0] != "ACCEPT"]
    # canaries
    can = {}
    cres, _ = validate(
        [
            {"stage": "h11-head", "cause": "malformed", "cls": "ValueError", "mod": "builtins", "hang": False},
            {"stage": "h11-head", "cause": "malformed", "cls": "RemoteProtocolError", "mod": "h11", "hang": False},
            {"stage": "h11-body", "cause": "eof", "cls": "ok", "mod": "", "hang": False},
            {"stage": "h2-frames", "cause": "mutated", "cls": "hang", "mod": "", "hang": True},
        ]
    )
    for name, v in zip(["bare-ValueError", "library-class-same-name", "truncation-succeeds", "hang"], cres):
        can[name] = v[0]
        if v[0] == "ACCEPT":
            raise tlc.MachineryError(f"canary '{name}' was ACCEPTED: ErrorsTrace does not bind")
    if rejected:
        diag = {k: validate([o for o, _ in rejected], k)[0] for k in DEVS}
        for i, (o, v) in enumerate(rejected):
            devs = [DEVS[k] for k in DEVS if diag[k][i][0] == "ACCEPT"]
            what = f"exception taxonomy violated: stage={o['stage']} cause={o['cause']} -> {o['mod']}.{o['cls']}{' (HANG)' if o['hang'] else ''} [{o['detail']}] {o['msg']!r}; explained by {devs or 'nothing'}"
            sig = {"module": "Errors", "deviation": devs[:1] or ["<none>"], "stimulus": [o["stage"]]}
            chk.classify(sig, what, {"observation": o, "deviations": devs})
    import collections

    cov = chk.coverage
    cov["evaluations"] = len(obs)
    cov["distinct_nontrivial"] = len({(o["stage"], o["cause"], str(o["detail"])) for o in obs if o["cls"] != "ok"})
    cov["rule"] = "one evaluation = one call through the real pool against one malformed / mutated / faulty input; distinct = distinct (stage, cause, input); non-trivial = the call failed"
    cov["by_stage"] = dict(collections.Counter(o["stage"] for o in obs))
    cov["by_outcome"] = dict(collections.Counter(o["cls"] for o in obs))
    cov["taxonomy_states"] = res["distinct"]
    cov["canaries"] = can
    cov["samples"] = [{k: o[k] for k in ("stage", "cause", "cls", "mod", "detail")} for o in (obs[:2] + obs[-2:])]
    cov["checker_cmd"] = "tlc -workers 1 -config <generated> MCErrorsTrace.tla (TRACE_FILE=<batch>.json), sharded"
    chk.assumptions += [
        "every input ends (the peer closes after its bytes): a call that is still blocked then is a hang",
        "'every byte sequence' is unbounded: malformation classes are enumerated, bytes inside a class and mutation positions are sampled (seeded); the protocol libraries h11 / h2 / socksio are part of what is tested",
    ]
    return chk.finish()
