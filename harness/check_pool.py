"""Checks decided with spec/Pool.tla + spec/PoolTrace.tla:
   1. TLC model-checks Pool (intended design, Deviations = {}) for the property's invariants;
   2. TLC confirms each invariant is not vacuous: with a named deviation switched on it fails;
   3. real executions of AsyncConnectionPool (virtual loop, simulated network) are recorded
      and TLC validates every trace against PoolTrace;
   4. canaries: corrupted traces must be rejected;
   5. rejected traces are explained by a named deviation (known finding) or reported."""
from __future__ import annotations

import copy
import hashlib
import json
import random
import time

from . import explore, pooltrace, tlc
from .checklib import Check, jsonable, seed
from .driver import run_script
from .pool_scenarios import SCENARIOS

MC_TEMPLATE = """SPECIFICATION {spec}
CONSTANTS
  Req <- {req}
  Conn <- {conn}
  Origin <- OAB
  Cfgs <- {cfgs}
  None <- NoneC
  NoExpiry <- NoExpC
  NoTimeout <- NoTOC
  MaxClock = {maxclock}
  Faults = {faults}
  Abandons = {abandons}
  CancelStyles <- {styles}
  WithPoolClose = {poolclose}
  Deviations <- {dev}
"""


def mc_cfg(cfgs, invariants=(), properties=(), req="R3", conn="C5", maxclock=2, faults=1, abandons="TRUE", styles="StylesScope", dev="Empty", spec="Spec", deadlock=True, poolclose="FALSE"):
    t = MC_TEMPLATE.format(spec=spec, req=req, conn=conn, cfgs=cfgs, maxclock=maxclock, faults=faults, abandons=abandons, styles=styles, dev=dev, poolclose=poolclose)
    for i in invariants:
        t += f"INVARIANT {i}\n"
    for p in properties:
        t += f"PROPERTY {p}\n"
    if not deadlock:
        t += "CHECK_DEADLOCK FALSE\n"
    return t


ALL_INV = ["TypeOK", "ConnLimit", "Forgotten", "NoZombie", "StreamOwned", "NoServiceableWaiter", "OwnResponse", "ReuseGate", "AtMostOnce"]
ALL_PROP = ["PassImplementsRel", "PoolTimeoutExact", "RetryOnlyUnsent"]

# property -> what TLC checks on the model, and which executions are recorded
PLAN = {
    "C04": {
        "scen_trio": ["h1-max1-AAB", "h1-max2-AAAA"],
        "mc_thorough": ["CfgsMbase"],
        "inv": ["TypeOK", "ConnLimit"],
        "prop": ["PassImplementsRel"],
        "mc_quick": ["CfgsQ1", "CfgsQ2"],
        "vacuity": [("DevLimit", "CfgsQ1", "ConnLimit")],
        "scen_quick": ["h1-max1-AAB", "h1-max2-AAAA", "h1-max1-close", "h1-guess-max1", "h1-retries-max1-AA", "h2-max1-AAB", "h1-max1-A-nonascii-A"],
        "scen_thorough": ["h1-max1-A-nonascii-A", "h1-max2-AB-nonascii-A", "h1-max1-AAB", "h1-max2-AAAA", "h1-max1-close", "h1-guess-max1", "h1-guess-max2", "h1-max3-ABCAB", "h1-max2-ABC-keep0", "h1-max2-ABA-keep1", "h1-tls-max1-AAB", "h1-max1-abandon", "h1-retries-max1-AA", "h1-retries-max2-AB", "h2-max1-AAB", "h2-max1-BAB", "tun-max1-AAB", "socks-max1-AAB", "h2-alpn-max1-AAB", "h2-alpn-max2-AAAB"],
        "strategies": ["base", "dfs", "fault", "cancel-scope", "late", "late+fault"],
    },
    "C05": {
        "scen_trio": ["h1-max1-AA", "h1-tls-max1-AAB", "h2-max1-AA"],
        "mc_thorough": ["CfgsMbase"],
        "inv": ["TypeOK", "Forgotten", "NoZombie"],
        "prop": [],
        "mc_quick": ["CfgsQ1"],
        "vacuity": [("DevFresh", "CfgsQ1", "NoZombie"), ("DevGate", "CfgsQ1", "NoZombie"), ("DevNoRemove", "CfgsQ1", "Forgotten")],
        "scen_quick": ["h1-max1-A", "h1-max1-AA", "h1-tls-max1-AAB", "h2-max1-AA", "tun-max1-AAB", "h1-max1-pto", "socks-max1-AA", "fwd-max1-AA", "socks-guess-max1-AA", "h1-max1-A-nonascii-A"],
        "scen_thorough": ["h1-max1-A", "h1-max1-AA", "h1-max1-AAB", "h1-tls-max1-AAB", "h1-max1-close", "h1-max1-abandon", "h1-guess-max1", "h1-max2-ABA-keep1", "h2-max1-AA", "h2-max1-AAB", "tun-max1-AAB", "fwd-max1-AAB", "socks-max1-AAB", "h1-max1-pto", "h1-max1-pto-AB"],
        "strategies": ["base", "fault", "seq+fault", "cancel-scope", "cancel-native", "time"],
    },
    "C06": {
        "scen_trio": ["h1-tls-max1-AAB", "h2-max1-AA"],
        "mc_thorough": ["CfgsMbase"],
        "inv": ["TypeOK", "StreamOwned"],
        "prop": [],
        "mc_quick": ["CfgsQ1"],
        "vacuity": [("DevEstab", "CfgsQ1", "StreamOwned")],
        "scen_quick": ["h1-max1-AA", "h1-tls-max1-AAB", "h2-max1-AAB", "tun-max1-AAB", "socks-max1-AAB", "h2-max1-AA", "h1-max1-upgrade", "h1-max1-A-nonascii-A"],
        "scen_thorough": ["h1-max1-A", "h1-max1-AA", "h1-max1-AAB", "h1-tls-max1-AAB", "h1-max1-close", "h1-max1-abandon", "h1-max2-ABC-keep0", "h2-max1-AAB", "h2-max1-AA", "tun-max1-AAB", "fwd-max1-AAB", "socks-max1-AAB", "h1-max1-upgrade"],
        "strategies": ["base", "fault", "cancel-scope", "cancel-native", "poolclose"],
    },
    "C07": {
        "scen_trio": ["h1-max1-AAB", "h1-guess-max1"],
        "mc_thorough": ["CfgsMbase", "CfgsMto"],
        "inv": ["TypeOK", "NoServiceableWaiter"],
        "prop": ["PassImplementsRel"],
        "mc_quick": [("CfgsQ1a", {"maxclock": 1}), ("CfgsQ3a", {"faults": 0})],
        "live": "CfgsL1",
        "vacuity": [("DevNoPass", "CfgsQ1", "NoServiceableWaiter")],
        "scen_quick": ["h1-max1-AAB", "h1-max1-pto", "h1-guess-max1", "h2-max1-BAB"],
        "scen_thorough": ["h1-max1-AAB", "h1-max1-pto", "h1-max1-pto-AB", "h1-guess-max1", "h1-guess-max2", "h1-max2-AAAA", "h1-max1-close", "h1-max1-abandon", "h1-max3-ABCAB", "h2-max1-BAB", "h2-max1-AAB", "fwd-max1-AAB", "tun-max1-AAB", "h2-alpn-max2-AAAB"],
        "strategies": ["base", "dfs", "fault", "cancel-scope", "stale-scripts"],
    },
    "C01": {
        "scen_trio": ["h1-max1-mixed-ends"],
        "mc_thorough": ["CfgsMbase"],
        "inv": ["TypeOK", "OwnResponse", "ReuseGate"],
        "prop": [],
        "mc_quick": [("CfgsQ1", {"maxclock": 1})],
        "vacuity": [("DevIdle", "CfgsQ1", "ReuseGate"), ("DevIdle", "CfgsQ1", "OwnResponse")],
        "scen_quick": ["h1-max1-abandon", "h1-max1-close", "h1-max1-early", "h1-max1-mixed-ends", "h1-max1-interim", "h1-max1-upgrade"],
        "scen_thorough": ["h1-max1-abandon", "h1-max1-close", "h1-max1-http10", "h1-max1-early", "h1-max1-mixed-ends", "h1-max1-interim", "h1-max2-AAAB-mixed", "h1-max1-AAB", "h1-max2-AAAA"],
        "strategies": ["base", "dfs", "fault", "cancel-scope", "sequential"],
    },
    "C14": {
        "scen_trio": ["h1-guess-max1"],
        "mc_thorough": ["CfgsMbase"],
        "inv": ["TypeOK", "AtMostOnce"],
        "prop": ["RetryOnlyUnsent"],
        "mc_quick": [("CfgsQ1", {"maxclock": 1}), ("CfgsQ3a", {})],
        "vacuity": [],
        "scen_quick": ["h1-max1-AAB", "h1-guess-max1", "h1-retries-max1-AA", "h1-max1-early", "h2-max1-AA"],
        "scen_thorough": ["h1-max1-AAB", "h1-guess-max1", "h1-guess-max2", "h1-retries-max1-AA", "h1-retries-max2-AB", "h1-max1-early", "h1-max1-close", "h1-max2-AAAA", "h2-max1-AA", "h2-max1-AAB", "h2-alpn-max1-AAB"],
        "strategies": ["base", "dfs", "fault"],
    },
    "C10": {
        "mc_thorough": ["CfgsMbase"],
        "inv": ["TypeOK"],
        "prop": ["PassImplementsRel"],
        "mc_quick": [("CfgsQ2", {"faults": 0, "maxclock": 0})],
        "vacuity": [],
        "scen_quick": ["h1-origins-port", "h1-origins-scheme", "h1-origins-host", "stun-sharedctx-max2-AB", "tun-max1-AAB"],
        "scen_thorough": ["h1-origins-port", "h1-origins-scheme", "h1-origins-host", "h2-alpn-max1-AAB", "stun-sharedctx-max2-AB", "tun-max1-AAB", "socks-max1-AAB", "fwd-max1-AAB"],
        "strategies": ["base", "dfs", "sequential"],
    },
    "C11": {
        # what each hop sees, for every TRANSMISSION of a request (the pool re-sends the caller's Request
        # object after ConnectionNotAvailable - double assignment of an idle connection, a refusal at the
        # connect lock): absolute-form to a forwarding proxy, origin-form through a tunnel
        "mc_thorough": ["CfgsMbase"],
        "inv": ["TypeOK", "AtMostOnce"],
        "prop": [],
        "mc_quick": [("CfgsQ2", {"faults": 0, "maxclock": 0})],
        "vacuity": [],
        "scen_quick": ["fwd-max1-AAB", "fwd-max1-AAA", "tun-max1-AAB"],
        "scen_thorough": ["fwd-max1-AAB", "fwd-max1-AAA", "tun-max1-AAB", "socks-max1-AAB", "socks-guess-max1-AA"],
        "strategies": ["base", "dfs", "late"],
    },
    "C16": {
        "mc_thorough": ["CfgsMto"],
        "inv": ["TypeOK", "Forgotten"],
        "prop": ["PoolTimeoutExact"],
        "mc_quick": [("CfgsTO", {"maxclock": 3, "faults": 0})],
        "vacuity": [("DevTO", "CfgsTO", "PoolTimeoutExact")],
        "scen_quick": ["h1-max1-pto", "h1-max1-pto-AB", "h1-guess-max1-pto"],
        "scen_thorough": ["h1-max1-pto", "h1-max1-pto-AB", "h1-max1-pto-zero", "h1-guess-max1-pto"],
        "strategies": ["base", "dfs", "late", "time"],
    },
    "C03": {
        "mc_thorough": ["CfgsMbase"],
        # on a shared HTTP/2 connection the requests of the OTHER callers still reach the server
        # decodable when a caller fails or is cancelled at any point (HPACK state, frame order)
        "inv": ["TypeOK", "AtMostOnce"],
        "prop": [],
        "mc_quick": [("CfgsQ3", {"faults": 1, "maxclock": 0})],
        "vacuity": [],
        "scen_quick": ["h2-max1-AA"],
        "scen_thorough": ["h2-max1-AA", "h2-max1-AAB"],
        "strategies": ["base", "dfs", "fault", "cancel-scope"],
    },
    "C09": {
        "mc_thorough": ["CfgsMexp"],
        "inv": ["TypeOK"],
        "prop": ["PassImplementsRel"],
        "mc_quick": ["CfgsQ2", "CfgsK1", ("CfgsK2", {"faults": 0})],
        "vacuity": [("DevKeep", "CfgsK1", "PassImplementsRel"), ("DevStale", "CfgsK2", "PassImplementsRel")],
        "scen_quick": ["h1-max2-ABA-keep1", "h1-max2-ABC-keep0"],
        "scen_thorough": ["h1-max2-ABA-keep1", "h1-max2-ABC-keep0", "h1-max3-ABCAB", "h1-max1-AAB"],
        "strategies": ["base", "dfs", "keepalive-scripts"],
    },
}


def stimulus_class(label, run):
    """Code-independent description of the injected stimulus (part of a finding's signature)."""
    out = []
    for i, e in enumerate(run.events):
        if e["ev"] == "Cancel":
            out.append(f"cancel/{e['style']}/{'shielded' if e.get('shielded') else 'open'}/{e.get('blocked')}")
            # did the cancellation interrupt a network write of that caller (its bytes are lost)?
            dropped = any(x["ev"] == "OpDropped" and x.get("task") == e["r"] and x.get("kind") == "write" for x in run.events[i:])
            out.append(f"cancel-drop/{e['style']}/{'write' if dropped else 'none'}")
        elif e["ev"] == "Fault":
            out.append(f"fault/{e['kind']}/{e['fault']}")
        elif e["ev"] == "Tick" and e.get("injected"):
            out.append("time/deadline-between-quanta")
    return sorted(set(out)) or ["none"]


class PoolRunner:
    def __init__(self, chk: Check, plan, tier):
        self.chk = chk
        self.plan = plan
        self.tier = tier
        self.items = []  # (scenario id, label, trace, meta)
        self.seen = {}
        self.evaluations = 0
        self.rng = random.Random(seed())

    # ---- 1/2: the model ---------------------------------------------------
    def model_check(self):
        states = trans = 0
        runs = []
        for cfgs in self.plan["mc_quick"]:
            kw = {}
            if isinstance(cfgs, tuple):
                cfgs, kw = cfgs
            res = tlc.model_check("MCPool", mc_cfg(cfgs, self.plan["inv"], self.plan["prop"], **kw), tag="mc")
            runs.append({"cfgs": cfgs, "distinct": res["distinct"], "generated": res["states"], "ok": res["ok"], "wall_s": round(res["wall_s"], 1)})
            if not res["ok"]:
                raise tlc.MachineryError(
                    f"the specification itself violates its property in instance {cfgs} (a defect of the spec, not of httpcore):\n"
                    + "\n".join(res["errors"][:5])
                )
            states += res["distinct"]
            trans += res["states"]
        if self.tier == "thorough":
            # exhaustive: the property's slices of the medium product instance, ALL invariants
            for cfgs in self.plan.get("mc_thorough", ["CfgsMbase"]):
                res = tlc.model_check("MCPool", mc_cfg(cfgs, ALL_INV, ALL_PROP, faults=1, styles="StylesScope"), timeout=3600, tag="mcT")
                runs.append({"cfgs": cfgs, "distinct": res["distinct"], "generated": res["states"], "ok": res["ok"], "wall_s": round(res["wall_s"], 1)})
                if not res["ok"]:
                    raise tlc.MachineryError(f"thorough instance {cfgs} violates the model's own properties:\n" + "\n".join(res["errors"][:5]))
                states += res["distinct"]
                trans += res["states"]
            # simulation: the full product (216 configurations), two faults, both cancellation styles
            res = tlc.simulate("MCPool", mc_cfg("CfgsT", ALL_INV, ALL_PROP, faults=2, styles="StylesBoth", maxclock=2), seconds=240, depth=90, seed=seed(), tag="simT")
            runs.append({"cfgs": "CfgsT", "mode": "simulation 240 s, depth 90", "states_checked": res["sim_states"], "behaviours": res["sim_traces"], "ok": res["ok"]})
            if not res["ok"]:
                raise tlc.MachineryError("simulation of the full product instance violates the model's own properties:\n" + "\n".join(res["errors"][:5]))
            trans += res["sim_states"]
        if self.plan.get("live"):
            res = tlc.model_check(
                "MCPool",
                mc_cfg(self.plan["live"], [], ["Progress"], req="R2", conn="C4", faults=0, maxclock=1, abandons="FALSE", spec="FairSpec"),
                tag="live",
            )
            runs.append({"cfgs": self.plan["live"], "liveness": "Progress", "distinct": res["distinct"], "ok": res["ok"]})
            if not res["ok"]:
                raise tlc.MachineryError("liveness (Progress) fails on the model:\n" + "\n".join(res["errors"][:5]))
            states += res["distinct"]
            trans += res["states"]
        vac = []
        for dev, cfgs, expect in self.plan.get("vacuity", []):
            inv = [expect] if expect in ALL_INV else []
            prp = [expect] if expect in ALL_PROP else []
            res = tlc.model_check("MCPool", mc_cfg(cfgs, inv, prp, dev=dev), tag="vac")
            hit = [e for e in res["errors"] if expect in e]
            vac.append({"deviation": dev, "expected": expect, "found": bool(hit), "steps": len(res["behaviour"])})
            if not hit:
                raise tlc.MachineryError(f"vacuity guard: deviation {dev} does not violate {expect} (errors: {res['errors'][:3]})")
        self.chk.coverage["states"] = states
        self.chk.coverage["transitions"] = trans
        self.chk.coverage["model_runs"] = runs
        self.chk.coverage["vacuity_guards"] = vac

    # ---- 3: executions ------------------------------------------------------
    def add(self, scen, label, run, extra=None):
        self.evaluations += 1
        try:
            tr = pooltrace.Encoder(run, **scen.enc).encode()
        finally:
            meta = {
                "scenario": scen.id,
                "label": list(label),
                "decisions": [list(d) for d in run.decisions],
                "inject": {str(k): v for k, v in getattr(run, "inject_orig", {}).items()},
                "stimuli": stimulus_class(label, run),
                "outcomes": {n: (o.get("result"), o.get("exc")) for n, o in run.outcome.items()},
                "script": extra,
            }
            run.finish()
        key = hashlib.sha1(json.dumps(tr, sort_keys=True).encode()).hexdigest()
        if key in self.seen:
            self.seen[key]["dups"] += 1
            return
        item = {"scen": scen, "label": label, "trace": tr, "meta": meta, "dups": 0}
        self.seen[key] = item
        self.items.append(item)

    def explore(self):
        names = self.plan["scen_quick" if self.tier == "quick" else "scen_thorough"]
        strategies = self.plan["strategies"]
        quick = self.tier == "quick"
        for name in names:
            scen = SCENARIOS[name]
            strategies = [x for x in self.plan["strategies"] if x not in scen.skip]
            if "base" in strategies:
                run = scen.make()
                run.run()
                self.add(scen, ("base",), run)
            if "sequential" in strategies:
                run = scen.make()
                run.run(explore.sequential_decide)
                self.add(scen, ("sequential",), run)
            if "dfs" in strategies:
                for label, run in explore.dfs_orders(scen.make, depth=8 if quick else 12, max_runs=40 if quick else 400):
                    self.add(scen, label, run)
            if "fault" in strategies:
                for label, run in explore.fault_variants(scen.make):
                    self.add(scen, label, run)
            if "seq+fault" in strategies and "seq+fault" not in scen.skip:
                for label, run in explore.fault_variants(scen.make, decide0=explore.sequential_decide, tag="seq+fault"):
                    self.add(scen, label, run)
            styles = []
            if "cancel-scope" in strategies:
                styles.append("scope")
            if "cancel-native" in strategies:
                styles.append("native")
            if styles:
                for label, run in explore.cancel_variants(scen.make, styles=tuple(styles)):
                    self.add(scen, label, run)
            if "poolclose" in strategies:
                run = scen.make()
                run.run()
                if not run.live():
                    run.apply(("poolclose",))
                    run.quiesce()
                    run.snapshot("End", live=run.live())
                self.add(scen, ("poolclose",), run)
            if "time" in strategies:
                for label, run in explore.time_variants(scen.make):
                    self.add(scen, label, run)
            if "late" in strategies:
                for label, run in explore.arrival_variants(scen.make, with_faults=("late+fault" in strategies), stride=1):
                    self.add(scen, label, run)
            if ("random" in strategies or not quick) and "random" not in scen.skip:
                for i in range(25 if quick else 150):
                    s = self.rng.randrange(1 << 30)
                    run = explore.random_walk(scen.make, s, p_fault=0.08, p_cancel=0.03 if styles else 0.0)
                    self.add(scen, ("random", s), run)
        self.explore_trio(quick)
        if "keepalive-scripts" in self.plan["strategies"]:
            self.keepalive_scripts(quick)
        elif "stale-scripts" in self.plan["strategies"]:
            # (C07: a request for an origin whose idle connection has gone stale must be served - the slot of a
            #  connection that is being closed is free)
            self.stale_run_scripts(quick, 0)

    def explore_trio(self, quick):
        """The same scenarios with the async pool running under TRIO (trio.Lock / Event / Semaphore,
        trio.fail_after, trio cancel scopes): base, faults, scope cancellation, completion orders."""
        names = self.plan.get("scen_trio", [])
        if not names:
            return
        from .driver import Call
        from .trio_run import TrioRun

        strategies = self.plan["strategies"]
        for name in names:
            scen = SCENARIOS[name]

            def make(scen=scen):
                return TrioRun(scen.pool_kwargs, [Call(**c) for c in scen.calls], world=scen.world())

            run = make()
            run.run()
            self.add(scen, ("trio", "base"), run)
            if "dfs" in strategies:
                for label, run in explore.dfs_orders(make, depth=8 if quick else 12, max_runs=30 if quick else 300):
                    self.add(scen, ("trio",) + tuple(label), run)
            if "fault" in strategies:
                for label, run in explore.fault_variants(make):
                    self.add(scen, ("trio",) + tuple(label), run)
            if "cancel-scope" in strategies and "cancel-scope" not in scen.skip:
                for label, run in explore.cancel_variants(make, styles=("scope",)):
                    self.add(scen, ("trio",) + tuple(label), run)
        self.chk.coverage["trio_scenarios"] = list(names)

    def keepalive_scripts(self, quick):
        import itertools

        from .pool_scenarios import A, B, Scenario, c

        configs = []
        for mc in (1, 2):
            for mk in (0, 1, None):
                for ex in (None, 0, 2):
                    configs.append((mc, mk, ex))
        if quick:
            configs = [(2, 1, 2), (1, None, None), (2, 0, None), (2, None, 0)]
        alphabet = [("go", 0), ("go", 1), ("advance", 1), ("advance", 3), ("peerclose", 0)]
        length = 4 if quick else 5
        n = 0
        from .pool_scenarios import H2, world_h2

        # HTTP/1.1 words, then the same words (without server-side closes) on HTTP/2 connections
        protos = [(c, "h1") for c in configs] + [(c, "h2") for c in (configs if not quick else [(2, 1, 2), (1, None, 0)])]
        for (mc, mk, ex), proto in protos:
            for seqn in itertools.product(range(len(alphabet)), repeat=length):
                steps = [alphabet[i] for i in seqn]
                if sum(1 for s in steps if s[0] == "go") < 2:
                    continue
                if proto == "h2" and any(s[0] == "peerclose" for s in steps):
                    continue
                if quick and self.rng.random() > 0.12:
                    continue
                if not quick and self.rng.random() > 0.25:
                    continue
                calls = []
                script = []
                clock = 0
                k = 0
                for s in steps:
                    if s[0] == "go":
                        k += 1
                        nm = f"r{k}"
                        calls.append(c(nm, (A if s[1] == 0 else B) + f"/{k}", gates=("start",)))
                        script.append(("go", nm))
                    elif s[0] == "advance":
                        clock += s[1]
                        script.append(("advance", clock))
                    else:
                        script.append(("peerclose", 0))
                if len(calls) > 6:
                    continue
                if proto == "h2":
                    scen = Scenario(f"keepalive-h2-mc{mc}-mk{mk}-ex{ex}", dict(max_connections=mc, max_keepalive_connections=mk, keepalive_expiry=ex, **H2), calls, world=world_h2, enc={"h2_origins": [0, 1]})
                else:
                    scen = Scenario(f"keepalive-mc{mc}-mk{mk}-ex{ex}", dict(max_connections=mc, max_keepalive_connections=mk, keepalive_expiry=ex), calls)
                run = scen.make()
                run_script(run, script)
                self.add(scen, ("script", n), run, extra=[list(s) for s in script])
                n += 1
        n = self.stale_run_scripts(quick, n)
        n = self.h2_idle_frame_scripts(quick, n)
        self.overlap_scripts(quick, n)

    def h2_idle_frame_scripts(self, quick, n):
        """Sequential requests on a pooled HTTP/2 connection with the server SPEAKING in the idle gaps (a PING, a
        SETTINGS update): a healthy idle connection stays in the pool and is reused."""
        from .pool_scenarios import A, B, H2, Scenario, c, world_h2

        for mc, mk, ex in ((1, None, None), (2, 1, 5)):
            for kind in ("ping", "settings"):
                for with_b in (False, True):
                    calls = [c("r1", A + "/1", gates=("start",)), c("r2", A + "/2", gates=("start",)), c("r3", A + "/3", gates=("start",))]
                    script = [("go", "r1"), ("srvframe", A + "/", kind), ("go", "r2"), ("advance", 1), ("srvframe", A + "/", kind), ("go", "r3")]
                    if with_b:
                        if mc < 2:
                            continue
                        calls.append(c("r4", B + "/4", gates=("start",)))
                        script = script[:3] + [("go", "r4")] + script[3:]
                    scen = Scenario(f"h2-idle-{kind}-mc{mc}-mk{mk}-ex{ex}", dict(max_connections=mc, max_keepalive_connections=mk, keepalive_expiry=ex, **H2), calls, world=world_h2, enc={"h2_origins": [0, 1]})
                    run = scen.make()
                    run_script(run, script)
                    self.add(scen, ("h2-idle-frame", n), run, extra=[list(s) for s in script])
                    n += 1
        return n

    def stale_run_scripts(self, quick, n):
        """SEVERAL idle connections (one per origin, 2-4 origins) that go stale TOGETHER - all past their
        keep-alive expiry, or all closed by the server, or a mixture - and then a request for each origin in
        turn: every stale connection is dropped (never handed out), whatever its position in the pool."""
        import itertools

        from .pool_scenarios import Scenario, c

        hosts = ["http://a.test", "http://b.test", "http://c.test", "http://d.test"]
        for k_or in (1, 2, 3, 4):
            kinds = ["expire", "peerclose", "mixed"]
            for kind in kinds:
                for target in range(k_or):
                    if quick and k_or == 4 and target not in (1, 3):
                        continue
                    calls, script = [], []
                    for i in range(k_or):
                        calls.append(c(f"r{i + 1}", hosts[i] + f"/{i + 1}", gates=("start",)))
                        script.append(("go", f"r{i + 1}"))
                    if kind == "expire":
                        script.append(("advance", 3))
                    elif kind == "peerclose":
                        script += [("peerclose", hosts[i] + "/") for i in range(k_or)]
                    else:
                        script += [("peerclose", hosts[i] + "/") for i in range(0, k_or, 2)]
                        script.append(("advance", 3))
                    calls.append(c(f"r{k_or + 1}", hosts[target] + "/again", gates=("start",)))
                    script.append(("go", f"r{k_or + 1}"))
                    calls.append(c(f"r{k_or + 2}", hosts[(target + 1) % k_or] + "/again2", gates=("start",)))
                    script.append(("go", f"r{k_or + 2}"))
                    scen = Scenario(f"stale-run-o{k_or}-{kind}", dict(max_connections=k_or, keepalive_expiry=2), calls)
                    run = scen.make()
                    run_script(run, script)
                    self.add(scen, ("stale-run", n), run, extra=[list(s) for s in script])
                    n += 1
        return n

    def overlap_scripts(self, quick, n):
        """Keep-alive histories in which responses are HELD OPEN while other things happen (a
        connection goes stale - expiry or server-side close - next to one that is about to turn
        idle; surplus decided while another response is open).  Words: go X (a whole request),
        open X (request whose response is held), close (release the oldest held response),
        advance, peerclose.  Enumerated completely for the chosen length."""
        import itertools

        from .pool_scenarios import A, B, Scenario, c

        alphabet = [("go", 0), ("go", 1), ("open", 0), ("open", 1), ("close",), ("advance", 3), ("peerclose", 0), ("peerclose", 1)]
        configs = [(2, 1, 2), (2, 1, None)] if quick else [(2, 1, 2), (2, 1, None), (3, 1, 2), (2, 2, 2), (3, 2, None), (2, 0, 2)]
        length = 4 if quick else 5
        for mc, mk, ex in configs:
            for seqn in itertools.product(range(len(alphabet)), repeat=length):
                steps = [alphabet[i] for i in seqn]
                # at least one held response that is released later, and something in between
                opens = [i for i, s in enumerate(steps) if s[0] == "open"]
                closes = [i for i, s in enumerate(steps) if s[0] == "close"]
                if not opens or not closes or not any(cl > op + 1 for op in opens for cl in closes):
                    continue
                if ex is None and any(s[0] == "advance" for s in steps):
                    continue
                if sum(1 for s in steps if s[0] in ("go", "open")) < 2:
                    continue
                if not quick and length == 5 and self.rng.random() > 0.3:
                    continue
                calls, script, held = [], [], []
                clock = 0
                k = 0
                ok = True
                for s in steps:
                    if s[0] in ("go", "open"):
                        k += 1
                        nm = f"r{k}"
                        gates = ("start",) if s[0] == "go" else ("start", "read")
                        calls.append(c(nm, (A if s[1] == 0 else B) + f"/{k}", gates=gates))
                        script.append(("go", nm))
                        if s[0] == "open":
                            held.append(nm)
                    elif s[0] == "close":
                        if not held:
                            ok = False
                            break
                        script.append(("release", held.pop(0), "read"))
                    elif s[0] == "advance":
                        clock += s[1]
                        script.append(("advance", clock))
                    else:
                        script.append(("peerclose", (A if s[1] == 0 else B) + "/"))
                if not ok:
                    continue
                scen = Scenario(f"overlap-mc{mc}-mk{mk}-ex{ex}", dict(max_connections=mc, max_keepalive_connections=mk, keepalive_expiry=ex), calls)
                run = scen.make()
                run_script(run, script, hold=("read",))
                self.add(scen, ("overlap", n), run, extra=[list(s) for s in script])
                n += 1

    # ---- 4/5: TLC judges ------------------------------------------------------
    def judge(self):
        traces = [it["trace"] for it in self.items]
        verdicts, stats = pooltrace.validate(traces)
        rejected = [(it, v) for it, v in zip(self.items, verdicts) if v[0] != "ACCEPT"]
        accepted = [it for it, v in zip(self.items, verdicts) if v[0] == "ACCEPT"]
        # canaries on accepted traces: a corrupted field / a wrong outcome must be rejected
        can = self.canaries(accepted)
        diag = pooltrace.diagnose([it["trace"] for it, _ in rejected]) if rejected else []
        for (it, v), d in zip(rejected, diag):
            devs, allv, alll, mode = d
            what = (
                f"trace rejected by PoolTrace at event {v[1]} of {len(it['trace']['ev'])} "
                f"(scenario {it['scen'].id}, {it['label']}); explained by deviation(s) {devs or 'none'} [{mode}]"
            )
            replay = {
                "scenario": it["scen"].spec(),
                "meta": it["meta"],
                "verdict": list(v),
                "diagnosis": {"deviations": devs, "mode": mode, "all_on": [allv, alll]},
                "trace": it["trace"],
            }
            if not devs:
                self.chk.classify({"module": "Pool", "deviation": ["<none>"], "stimulus": it["meta"]["stimuli"]}, what, replay)
            elif mode == "single":
                # alternatives: each of them alone explains the trace; every one that is a listed
                # finding is counted (they are different readings of the same execution)
                done = False
                for dname in devs:
                    sig = {"module": "Pool", "deviation": [dname], "stimulus": it["meta"]["stimuli"]}
                    f, mine = self.chk.findings.match(self.chk.prop, sig)
                    if f is not None:
                        self.chk.classify(sig, what, replay)
                        done = True
                if not done:
                    self.chk.classify({"module": "Pool", "deviation": devs, "stimulus": it["meta"]["stimuli"]}, what, replay)
            else:
                # a set of deviations each of which is necessary: all must be listed findings
                sigs = [{"module": "Pool", "deviation": [dname], "stimulus": it["meta"]["stimuli"]} for dname in devs]
                if all(self.chk.findings.match(self.chk.prop, s)[0] is not None for s in sigs):
                    for s in sigs:
                        self.chk.classify(s, what, replay)
                else:
                    self.chk.classify({"module": "Pool", "deviation": devs, "stimulus": it["meta"]["stimuli"]}, what, replay)
        nontrivial = sum(1 for it in self.items if len(it["trace"]["ev"]) >= 5)
        cov = self.chk.coverage
        cov["evaluations"] = self.evaluations
        cov["distinct_traces"] = len(self.items)
        cov["distinct_nontrivial"] = nontrivial
        cov["rule"] = (
            "one evaluation = one execution of the real AsyncConnectionPool under the virtual loop; distinct = distinct "
            "encoded abstract traces (sha1 of the TLC input); non-trivial = at least 5 logged quanta"
        )
        cov["traces_validated_against_impl"] = len(accepted)
        cov["traces_rejected"] = len(rejected)
        cov["trace_states"] = stats.get("distinct", 0)
        cov["canaries"] = can
        cov["samples"] = [
            {"scenario": it["scen"].id, "label": list(it["label"]), "events": len(it["trace"]["ev"]), "stimuli": it["meta"]["stimuli"], "outcomes": it["meta"]["outcomes"]}
            for it in (self.items[:3] + self.items[-2:])
        ]
        cov["checker_cmd"] = "tlc -workers 1 -config <generated PoolTrace cfg> MCPoolTrace.tla (TRACE_FILE=<batch>.json), sharded"

    def canaries(self, accepted):
        pool = [it for it in accepted if len(it["trace"]["ev"]) >= 8]
        if not pool:
            raise tlc.MachineryError("no accepted trace long enough for the canaries")
        base = pool[0]["trace"]
        bad = []
        # 1: one connection state flipped
        t1 = copy.deepcopy(base)
        for e in t1["ev"]:
            cs = e["obs"]["cs"]
            if cs and cs[0]["st"] == "active":
                cs[0]["st"] = "idle"
                break
        bad.append(("state-flipped", t1))
        # 2: a request count off by one
        t2 = copy.deepcopy(base)
        t2["ev"][len(t2["ev"]) // 2]["obs"]["na"] += 1
        bad.append(("count+1", t2))
        # 3: an outcome changed
        t3 = copy.deepcopy(base)
        for e in t3["ev"]:
            if e["e"] == "Q" and e.get("ret") == "ok":
                e["ret"] = "exc"
                break
        bad.append(("outcome-changed", t3))
        # 4: an extra connection appears in the pool beyond the limit
        t4 = copy.deepcopy(base)
        e = t4["ev"][len(t4["ev"]) // 2]
        n = len(e["obs"]["cs"]) + 1
        for e2 in t4["ev"][len(t4["ev"]) // 2 :]:
            while len(e2["obs"]["cs"]) < n:
                e2["obs"]["cs"].append({"st": "connecting", "mux": False, "cnt": 0, "idle": False, "av": False, "ex": False, "cl": False, "org": "A", "xc": True})
            e2["obs"]["pool"] = e2["obs"]["pool"] + [n]
        bad.append(("extra-connection", t4))
        res, _ = pooltrace.validate([t for _, t in bad], shards=2)
        out = {}
        for (name, _), v in zip(bad, res):
            out[name] = v[0]
            if v[0] == "ACCEPT":
                raise tlc.MachineryError(f"canary '{name}' was ACCEPTED: the trace specification does not bind")
        return out


def run(prop, tier):
    chk = Check(prop, tier, "model_checking")
    run_into(chk, prop, tier)
    return chk.finish()


def run_into(chk, prop, tier, prefix=""):
    plan = PLAN[prop]
    tlc.sany("MCPool.tla")
    tlc.sany("MCPoolTrace.tla")
    r = PoolRunner(chk, plan, tier)
    ph = {}
    t = time.time()
    r.model_check()
    ph["model_check"] = round(time.time() - t, 1)
    t = time.time()
    r.explore()
    ph["execute"] = round(time.time() - t, 1)
    t = time.time()
    r.judge()
    ph["validate+diagnose"] = round(time.time() - t, 1)
    chk.coverage["phase_s"] = ph
    chk.coverage["trusted_base"] = ["TLC 1.8.0", "harness/vloop.py + simnet.py (deterministic runtime, simulated network)", "anyio 4.x on asyncio", "projection through public API (info(), is_*(), repr(pool))"]
    chk.assumptions += [
        "peers answer every complete request with exactly one well-framed response",
        "async pool on asyncio/anyio; schedules are those a FIFO event loop can produce with the driver choosing I/O completion order, cancellations, faults and time",
        "bounds: <= 6 calls, <= 12 connections per execution; model instances as listed in model_runs",
    ]
