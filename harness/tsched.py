"""Controlled threads for the synchronous pool (C08).

Real threading.Threads pass a baton so that exactly one runs at a time.  The threading
primitives used by httpcore/_synchronization.py are replaced AT RUN TIME by scheduler-aware
ones (acquire / release / wait / set are yield points; blocked threads are parked), every
simulated network operation is a yield point, and optionally every source line of
httpcore/_sync/*.py is a pre-emption point.  The scheduler decides who runs next, so a
schedule is a replayable list of choices; the baton gives a total order of events."""
from __future__ import annotations

import sys
import threading
import types

import httpcore
import httpcore._synchronization as hsync

from .driver import AsyncRun, Call
from .simnet import FakeSSLContext, SimBackend, SimNet, World
from .vloop import patch_httpcore_clock


class Deadlock(BaseException):
    pass


class Abort(BaseException):
    """Raised inside worker threads when the run is being torn down."""


class Sched:
    def __init__(self, choose):
        self.choose = choose  # (sched, runnable names) -> name
        self.threads = {}  # name -> TState
        self.current = None
        self.main_sem = threading.Semaphore(0)
        self.vt = 0.0
        self.switches = 0
        self.on_switch = None  # callback(prev, why) after a thread gave up the baton
        self.choices = []
        self.aborting = False
        self.locks_held = 0
        self.max_switches = 20000
        self.preempt = None  # line-level pre-emption: callback(sched) -> bool

    # -- thread bodies -------------------------------------------------------
    def spawn(self, name, fn):
        ts = TState(name)
        self.threads[name] = ts

        def body():
            ts.sem.acquire()
            try:
                if not self.aborting:
                    fn()
            except Abort:
                pass
            finally:
                ts.done = True
                self.current = None
                self.main_sem.release()

        ts.thread = threading.Thread(target=body, name=name, daemon=True)
        ts.thread.start()

    def me(self):
        return self.threads.get(threading.current_thread().name)

    def yield_(self, why, blocked_on=None):
        """Called by a worker: give the baton back to the scheduler."""
        ts = self.me()
        if ts is None:
            return
        if self.aborting:
            raise Abort()
        ts.why = why
        ts.blocked_on = blocked_on
        self.current = None
        self.main_sem.release()
        ts.sem.acquire()
        if self.aborting:
            raise Abort()
        ts.blocked_on = None

    # -- the scheduler loop (runs in the main thread) -------------------------------
    def runnable(self):
        out = []
        for n, ts in self.threads.items():
            if ts.done:
                continue
            b = ts.blocked_on
            if b is None or b():
                out.append(n)
        return out

    def step(self):
        """Let one thread run until its next yield point. Returns its name, or None."""
        r = self.runnable()
        if not r:
            return None
        n = self.choose(self, r)
        self.choices.append(n)
        ts = self.threads[n]
        self.current = n
        self.switches += 1
        ts.sem.release()
        self.main_sem.acquire()
        if self.on_switch:
            self.on_switch(n, ts.why)
        return n

    def live(self):
        return [n for n, ts in self.threads.items() if not ts.done]

    def abort(self):
        self.aborting = True
        for ts in self.threads.values():
            if not ts.done:
                ts.sem.release()
        for ts in self.threads.values():
            ts.thread.join(timeout=2)


class TState:
    def __init__(self, name):
        self.name = name
        self.sem = threading.Semaphore(0)
        self.done = False
        self.why = "start"
        self.blocked_on = None
        self.thread = None
        self.deadline = None


# ---------------------------------------------------------------------------
# scheduler-aware primitives (stand-ins for threading.Lock / Event / Semaphore)
# ---------------------------------------------------------------------------
def make_threading_namespace(sched: Sched):
    class FLock:
        def __init__(self):
            self.owner = None

        def acquire(self, blocking=True, timeout=-1):
            sched.yield_("lock.acquire", blocked_on=lambda: self.owner is None)
            assert self.owner is None
            self.owner = threading.current_thread().name
            sched.locks_held += 1
            return True

        def release(self):
            self.owner = None
            sched.locks_held -= 1
            sched.yield_("lock.release")

        def __enter__(self):
            self.acquire()
            return self

        def __exit__(self, *a):
            self.release()

    class FEvent:
        def __init__(self):
            self.flag = False

        def set(self):
            self.flag = True

        def is_set(self):
            return self.flag

        def wait(self, timeout=None):
            deadline = None if timeout is None else sched.vt + timeout
            ts = sched.me()
            if ts is not None:
                ts.deadline = deadline
            sched.yield_("event.wait", blocked_on=lambda: self.flag or (deadline is not None and sched.vt >= deadline))
            if ts is not None:
                ts.deadline = None
            return self.flag

    class FSemaphore:
        def __init__(self, value=1):
            self.value = value

        def acquire(self, blocking=True, timeout=None):
            sched.yield_("sem.acquire", blocked_on=lambda: self.value > 0)
            self.value -= 1
            return True

        def release(self):
            self.value += 1
            sched.yield_("sem.release")

    return types.SimpleNamespace(Lock=FLock, Event=FEvent, Semaphore=FSemaphore, current_thread=threading.current_thread)


class ThreadRun:
    """One execution of a scenario on the SYNC pool with controlled threads (one thread per
    call).  Same recording / projection as driver.AsyncRun (public surfaces only)."""

    threads = True
    observe = AsyncRun.observe
    _conn_obs = AsyncRun._conn_obs
    cid = AsyncRun.cid
    exchange_clean = AsyncRun.exchange_clean
    streams_with_token = AsyncRun.streams_with_token
    route_of = AsyncRun.route_of
    hop_forms = AsyncRun.hop_forms
    _origins_of_calls = AsyncRun._origins_of_calls
    snapshot = AsyncRun.snapshot
    event = AsyncRun.event

    def __init__(self, pool_kwargs, calls, world=None, choose=None, preempt_lines=False):
        self.sched = Sched(choose or (lambda s, r: r[0]))
        self.ns = make_threading_namespace(self.sched)
        self._orig_threading = hsync.threading
        hsync.threading = self.ns
        self.loop = types.SimpleNamespace(vt=0.0, _scheduled=[])
        self._undo_clock = patch_httpcore_clock(lambda: self.sched.vt)
        self.net = SimNet(world or World(), current_task=lambda: threading.current_thread().name)
        self.net.yield_hook = self._net_op
        self.net.on_op = self._on_op
        self.pool_kwargs = dict(pool_kwargs)
        self.calls = {c.name: c for c in calls}
        self.order = [c.name for c in calls]
        self.outcome = {}
        self.phase = {c.name: "init" for c in calls}
        self.events = []
        self.record = True
        self.cids = {}
        self.cobjs = {}
        self.last_obs = None
        self.decisions = []
        self.waiting_gate = {}
        self.stuck = False
        self.internal_errors = []
        kw = dict(self.pool_kwargs)
        kw.setdefault("ssl_context", FakeSSLContext("origin"))
        kw["network_backend"] = SimBackend(self.net)
        self.pool = httpcore.ConnectionPool(**kw)
        self.origins = self._origins_of_calls()
        from .driver import ind_origin_of

        self.origin_keys = [ind_origin_of(o) for o in self.origins]
        self.preempt_lines = preempt_lines
        self.sched.on_switch = self._after_quantum
        self.tasks = {}

    _on_op = AsyncRun._on_op

    # network operations are yield points; a read blocks until the peer has something to say
    def _net_op(self, op):
        if op.kind == "read":
            self.sched.yield_("net." + op.kind, blocked_on=lambda: self.net.ready(op))
        else:
            self.sched.yield_("net." + op.kind)
        fault = self.net.fault_plan.get(op.seq)
        out = self.net.resolve(op, fault=fault)
        if out[0] == "exc":
            # nothing is injected in these runs: a failing operation is collateral damage
            owner = self.net.streams[op.sid].owner if op.sid is not None else None
            self.event("Fault", r=op.task, op=op.seq, kind=op.kind, fault=fault or "collateral", exc=type(out[1]).__name__, conn=self.cid(owner) if owner is not None else 0)
            raise out[1]
        return out[1]

    def _pool_lock_free(self):
        return self.pool._optional_thread_lock._lock.owner is None

    def _timers(self):
        return sorted(ts.deadline for ts in self.sched.threads.values() if not ts.done and ts.deadline is not None and ts.deadline > self.sched.vt)

    def _after_quantum(self, name, why):
        self.loop.vt = self.sched.vt
        self.loop._scheduled = [types.SimpleNamespace(_when=t, _cancelled=False) for t in self._timers()]
        if not self.record:
            return
        if self._pool_lock_free():
            obs = self.observe()
            self.events.append({"ev": "Step", "task": name, "obs": obs, "why": why})
            self.last_obs = obs
        else:
            # a thread was pre-empted at a source line inside a pool-lock section: only the
            # lock-free public reads are possible (enough for the coarse monitor)
            self.events.append({"ev": "StepL", "task": name, "obs": self.observe_light(), "why": why})

    def observe_light(self):
        pooled = self.pool.connections
        conns = [self._conn_obs(c, True) for c in pooled]
        ids = {x["id"] for x in conns}
        others = [self._conn_obs(c, False) for n, c in sorted(self.cobjs.items()) if n not in ids]
        return {"pool": conns, "evicted": others}

    def _worker(self, name):
        call = self.calls[name]
        out = {"result": None}
        self.outcome[name] = out
        if self.preempt_lines:
            sys.settrace(self._tracer)
        try:
            ext = dict(call.extensions)
            if call.timeout is not None:
                ext["timeout"] = dict(call.timeout)
            headers = [(b"Host", httpcore.URL(call.url).host), (b"X-Tok", call.tok.encode())] + list(call.headers)
            req = httpcore.Request(call.method, call.url, headers=headers, content=call.content, extensions=ext)
            self.phase[name] = "calling"
            self.event("Call", r=name)
            resp = self.pool.handle_request(req)
            self.phase[name] = "holding"
            out["status"] = resp.status
            tok = dict((k.lower(), v) for k, v in resp.headers).get(b"x-tok")
            out["tok"] = tok.decode() if tok is not None else ""
            self.event("Got", r=name, status=resp.status, tok=out["tok"], route=self.route_of(call), sent_on=self.streams_with_token(call.tok))
            body = b""
            try:
                if call.consume == "all":
                    for chunk in resp.iter_stream():
                        body += chunk
                    out["complete"] = True
                out["body"] = body
                exp = b"body-of-" + call.tok.encode()
                big = (exp + b"|") * 6
                self.event("BodyEnd", r=name, n=len(body), complete=bool(out.get("complete")), bodyok=(exp.startswith(body) or big.startswith(body)) and (not out.get("complete") or body in (exp, big)))
            finally:
                self.phase[name] = "closing"
                resp.close()
            out["result"] = "ok"
        except Abort:
            raise
        except BaseException as e:  # noqa
            out["result"] = "exc"
            out["exc"] = type(e).__name__
            out["msg"] = str(e)[:120]
            if not isinstance(e, (httpcore.TimeoutException, httpcore.NetworkError, httpcore.ProtocolError, httpcore.ProxyError)):
                self.internal_errors.append((name, type(e).__name__, str(e)[:120]))
            # an internal error of the HARNESS (innermost frame under /verif/harness) is never httpcore's doing
            tb_ = e.__traceback__
            while tb_ is not None and tb_.tb_next is not None:
                tb_ = tb_.tb_next
            inner = tb_.tb_frame.f_code.co_filename if tb_ is not None else ""
            if isinstance(e, (AttributeError, NameError, TypeError, KeyError, IndexError, UnboundLocalError)) and "/harness/" in inner and "/httpcore/" not in inner:
                import traceback

                from .tlc import MachineryError

                self.harness_error = MachineryError("the harness itself failed while driving a call:\n" + "".join(traceback.format_exception(e))[-1500:])
        finally:
            sys.settrace(None)
            self.phase[name] = "ended"
            self.event("Return", r=name, out=out["result"], exc=out.get("exc", ""), nsent=len(self.streams_with_token(call.tok)))

    def _tracer(self, frame, event, arg):
        fn = frame.f_code.co_filename
        # (the thread primitives of httpcore/_synchronization.py are part of the sync tree's critical sections)
        if "/httpcore/_sync/" not in fn and not fn.endswith("/httpcore/_synchronization.py"):
            return None
        if event == "line" and self.sched.me() is not None and self.sched.locks_held >= 0:
            if self.sched.preempt is not None and self.sched.preempt(self.sched):
                self.sched.yield_("line")
        return self._tracer

    def run(self, max_switches=20000):
        self.snapshot("Init")
        for n in self.order:
            self.event("Start", r=n)
            self.sched.spawn(n, lambda n=n: self._worker(n))
        while True:
            if self.sched.switches >= max_switches:
                self.stuck = True
                self.event("Livelock")
                break
            n = self.sched.step()
            if n is None:
                live = self.sched.live()
                if not live:
                    break
                # nobody can run: advance the virtual clock to the next Event.wait deadline, if any
                tm = self._timers()
                if tm:
                    self.sched.vt = tm[0]
                    self.loop.vt = tm[0]
                    self.loop._scheduled = [types.SimpleNamespace(_when=t, _cancelled=False) for t in self._timers()]
                    self.snapshot("Tick", t=tm[0])
                    continue
                self.stuck = True
                self.event("Stuck", live=live, where={})
                break
        self.loop.vt = self.sched.vt
        if self._pool_lock_free():
            self.snapshot("End", live=self.sched.live())
        else:
            self.events.append({"ev": "End", "live": self.sched.live(), "obs": dict(self.observe_light(), reqs={"active": -1, "queued": -1}, streams=[])})
        return self

    def live(self):
        return self.sched.live()

    def finish(self):
        self.record = False
        self.sched.abort()
        hsync.threading = self._orig_threading
        self._undo_clock()
        if getattr(self, "harness_error", None) is not None:
            raise self.harness_error


def coarse_trace(run):
    """The execution as ThreadCoarse.tla sees it (line-grain schedules)."""
    rid = {n: i + 1 for i, n in enumerate(run.order)}
    kw = run.pool_kwargs
    mc = kw.get("max_connections", 10)
    mc = 99 if mc is None else mc
    mk = kw.get("max_keepalive_connections", None)
    mk = mc if mk is None else min(mc, mk)
    evs = []
    last = None

    def obs(o):
        allc = {c["id"]: c for c in o["pool"] + o["evicted"]}
        n = max(allc) if allc else 0
        cs = []
        for i in range(1, n + 1):
            c = allc.get(i)
            if c is None or "count" not in c:
                cs.append({"st": "weird", "cnt": 0})
            else:
                cs.append({"st": str(c["state"]).lower(), "cnt": c["count"]})
        return {"e": "Obs", "pool": [c["id"] for c in o["pool"]], "cs": cs}

    for e in run.events:
        k = e["ev"]
        if k in ("Step", "StepL", "Init", "Tick"):
            o = obs(e["obs"])
            if o != last:
                evs.append(o)
                last = o
        elif k == "Call":
            evs.append({"e": "Call", "r": rid[e["r"]]})
        elif k == "Got":
            evs.append({"e": "Got", "r": rid[e["r"]], "tokok": e.get("tok", "") == run.calls[e["r"]].tok, "route": e.get("route", "ok"), "nsent": len(e.get("sent_on", []))})
        elif k == "BodyEnd":
            evs.append({"e": "Body", "r": rid[e["r"]], "bodyok": bool(e.get("bodyok", True))})
        elif k == "Fault":
            if e["r"] in rid:
                evs.append({"e": "Fault", "r": rid[e["r"]], "c": e.get("conn", 0)})
        elif k == "Return":
            internal = any(n == e["r"] for n, _, _ in run.internal_errors)
            # why: the signature of KF12 (two threads were given the SAME HTTP/2 stream id: the h2 library
            # refuses the second HEADERS on it, the other thread's clean-up no longer finds its events)
            o_ = run.outcome.get(e["r"], {})
            msg = str(o_.get("msg", ""))
            why = ""
            # (requests are legal and the servers well behaved in these scenarios: a LocalProtocolError - h2
            #  refusing SEND_HEADERS on the id, or StreamClosedError(<id>) - and a KeyError(<id>) can only come
            #  from the h2 state machine having been raced)
            if o_.get("exc") == "LocalProtocolError" or (o_.get("exc") == "KeyError" and msg.strip("'").isdigit()):
                why = "dup-stream-id"
            evs.append({"e": "Ret", "r": rid[e["r"]], "out": "internal" if internal else ("ok" if e["out"] == "ok" else "exc"), "nsent": e.get("nsent", 0), "why": why})
        elif k == "End":
            o = e["obs"]
            evs.append(
                {
                    "e": "End",
                    "live": sorted(rid[n] for n in e.get("live", []) if n in rid),
                    "na": o["reqs"]["active"],
                    "nq": o["reqs"]["queued"],
                    "pool": [c["id"] for c in o["pool"]],
                    "idle": [c["id"] for c in o["pool"] if c.get("idle")],
                    "open": sorted({s["owner"] for s in o["streams"] if s["open"]}),
                }
            )
    return {"cfg": {"n": len(run.order), "maxConn": mc, "maxKeep": mk, "mux": bool(kw.get("http2")) and not kw.get("http1", True)}, "ev": evs}
