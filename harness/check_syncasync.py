"""C18 with spec/SyncAsync.tla: every single-caller scenario of the corpus (pool histories with a
fault at every operation, the Establish case matrix with its outcome scripts, request shapes) is
run through the async classes and through the sync classes; TLC walks the two event logs in
lock step.  Side check outside the family (reported under its own key): the sync tree is
compared with a fresh run of the repository's own unasync rules over the FULL length of every
file."""
from __future__ import annotations

import copy
import os
import random
import re
import zlib

import httpcore

from . import establish as E
from . import tlc
from .check_reqwire import all_shapes, transmit_async, transmit_sync
from .checklib import Check, seed
from .driver import AsyncRun, Call
from .explore import sequential_decide
from .pool_scenarios import SCENARIOS, world_h1
from .simnet import FakeSSLContext, SimBackend, SimNet, WouldHang

SEQ_SCENARIOS = ["h2-max1-AA", "h2-max1-AAB", "h1-max1-upgrade", "fwd-max1-AA", "h1-max1-AAB", "h1-max1-close", "h1-max1-abandon", "h1-max1-http10", "h1-max2-ABA-keep1", "h1-max2-ABC-keep0", "h1-tls-max1-AAB", "h1-max1-early", "h1-origins-port", "h1-retries-max1-AA"]


def digest(b):
    return zlib.crc32(bytes(b)) & 0xFFFFFFF


def op_log(net):
    out = []
    for op in net.ops:
        if op.state == "dropped":
            continue
        a = op.args
        e = {"k": op.kind, "sid": -1 if op.sid is None else op.sid, "t": -1 if a.get("timeout") is None else int(a.get("timeout") * 2)}
        if op.kind == "write":
            e["n"] = len(a.get("data", b""))
            e["d"] = digest(a.get("data", b""))
        elif op.kind == "read":
            e["n"] = a.get("max_bytes", 0)
            e["d"] = digest(op.outcome[1]) if op.outcome and op.outcome[0] == "ok" else 0
        elif op.kind in ("connect_tcp",):
            e["n"] = a.get("port") or 0
            e["d"] = digest((a.get("host") or "").encode())
        elif op.kind == "start_tls":
            e["n"] = len(getattr(a.get("ssl_context"), "alpn", None) or [])
            e["d"] = digest((a.get("server_hostname") or "").encode())
        elif op.kind == "sleep":
            e["n"] = int(a.get("seconds", 0) * 2)
            e["d"] = 0
        else:
            e["n"] = 0
            e["d"] = 0
        e["r"] = "ok" if (op.outcome and op.outcome[0] == "ok") else (type(op.outcome[1]).__name__ if op.outcome else "pending")
        out.append(e)
    return out


def norm_info(s):
    return re.sub(r"^(Async)?", "", s)


def run_async(scen, fault):
    run = scen.make()
    run.record = False
    planned = {fault[0]: fault[1]} if fault else {}

    def decide(r, en):
        st = sequential_decide(r, en)
        if st is not None and st[0] == "op" and st[1] in planned:
            return ("op", st[1], planned[st[1]])
        return st

    states = []
    orig_event = run.event

    run.record = True
    run.events = []

    def ev(name, **kw):
        if name == "Return":
            states.append({"k": "state", "sid": -1, "t": -1, "n": len(run.pool.connections), "d": digest(("|".join(norm_info(c.info()) for c in run.pool.connections) + repr(run.pool).replace("Async", "")).encode()), "r": "ok"})

    run.event = ev
    run.snapshot = lambda *a, **k: None
    run.record = False
    run.run(decide)
    outs = []
    for n in run.order:
        o = run.outcome.get(n, {})
        outs.append({"k": "outcome", "sid": -1, "t": -1, "n": o.get("status") or 0, "d": digest(o.get("body") or b""), "r": (o.get("exc") or o.get("result") or "none")})
    log = op_log(run.net) + outs + states
    run.finish()
    return log


def run_sync(scen, fault):
    net = SimNet(scen.world())
    if fault:
        net.fault_plan[fault[0]] = fault[1]
    kw = dict(scen.pool_kwargs)
    kw.setdefault("ssl_context", FakeSSLContext("origin"))
    kw["network_backend"] = SimBackend(net)
    pool = httpcore.ConnectionPool(**kw)
    outs = []
    states = []
    for c in scen.calls:
        call = Call(**c)
        o = {}
        try:
            ext = dict(call.extensions)
            if call.timeout is not None:
                ext["timeout"] = dict(call.timeout)
            headers = [(b"Host", httpcore.URL(call.url).host), (b"X-Tok", call.tok.encode())] + list(call.headers)
            content = call.content
            if isinstance(content, (list, tuple)):
                content = iter(list(content))
            req = httpcore.Request(call.method, call.url, headers=headers, content=content, extensions=ext)
            resp = pool.handle_request(req)
            o["status"] = resp.status
            body = b""
            try:
                if call.consume == "all":
                    for chunk in resp.iter_stream():
                        body += chunk
                elif isinstance(call.consume, (tuple, list)) and call.consume[1] > 0:
                    it = resp.iter_stream()
                    for _ in range(call.consume[1]):
                        try:
                            body += next(it)
                        except StopIteration:
                            break
            finally:
                o["body"] = body
                resp.close()
            o["result"] = "ok"
        except WouldHang:
            o["exc"] = "hang"
        except BaseException as e:  # noqa
            o["exc"] = type(e).__name__
        outs.append({"k": "outcome", "sid": -1, "t": -1, "n": o.get("status") or 0, "d": digest(o.get("body") or b""), "r": (o.get("exc") or o.get("result") or "none")})
        states.append({"k": "state", "sid": -1, "t": -1, "n": len(pool.connections), "d": digest(("|".join(norm_info(c.info()) for c in pool.connections) + repr(pool)).encode()), "r": "ok"})
    return op_log(net) + outs + states


SCRIPTS = {
    # keep-alive expiry armed, connection reused, the clock passes the OLD deadline while the second
    # response is being read and another request makes the pool look at its connections
    "expiry-during-reuse": (
        dict(max_connections=2, keepalive_expiry=2),
        [("open", "r1", "http://a.test/1"), ("readall", "r1"), ("close", "r1"), ("advance", 1), ("open", "r2", "http://a.test/big2"), ("read", "r2", 1),
         ("advance", 4), ("open", "r3", "http://b.test/3"), ("readall", "r3"), ("close", "r3"), ("readall", "r2"), ("close", "r2"), ("state",)],
    ),
    # a body iteration that is not finished, then a second attempt
    "partial-then-reread": (
        dict(max_connections=1),
        [("open", "r1", "http://a.test/big1"), ("read", "r1", 1), ("reread", "r1"), ("close", "r1"), ("state",), ("open", "r2", "http://a.test/2"), ("readall", "r2"), ("reread", "r2"), ("close", "r2"), ("state",)],
    ),
    "close-twice-and-content": (
        dict(max_connections=1),
        [("open", "r1", "http://a.test/1"), ("content", "r1"), ("readall", "r1"), ("content", "r1"), ("close", "r1"), ("close", "r1"), ("state",)],
    ),
    # what the pool and the connection report BETWEEN the steps of the response protocol: after the head,
    # in the middle of the body, when the body has been read to the end but the response is still open
    "states-between-read-and-close": (
        dict(max_connections=1),
        [("open", "r1", "http://a.test/big1"), ("state",), ("read", "r1", 1), ("state",), ("readall", "r1"), ("state",), ("close", "r1"), ("state",),
         ("open", "r2", "http://a.test/2"), ("content", "r2"), ("readall", "r2"), ("state",), ("content", "r2"), ("close", "r2"), ("state",)],
    ),
    # a second request while the first response is fully read but NOT closed: the pool is at its limit,
    # a zero pool timeout fails at once; after the close it goes through on the same connection
    "nested-open-while-response-held": (
        dict(max_connections=1),
        [("open", "r1", "http://a.test/1"), ("readall", "r1"), ("open", "r2", "http://a.test/2", {"timeout": {"pool": 0}}), ("state",), ("close", "r1"),
         ("open", "r3", "http://a.test/3", {"timeout": {"pool": 0}}), ("readall", "r3"), ("close", "r3"), ("state",)],
    ),
    "idle-server-close-then-reuse": (
        dict(max_connections=1),
        [("open", "r1", "http://a.test/1"), ("readall", "r1"), ("close", "r1"), ("peerclose",), ("open", "r2", "http://a.test/2"), ("readall", "r2"), ("close", "r2"), ("state",)],
    ),
}


def _step_log(kind, name, result, data=b"", n=0):
    return {"k": kind, "sid": -1, "t": -1, "n": n, "d": digest(data), "r": result}


def script_sync(pool_kwargs, script, fault=None):
    from .vloop import patch_httpcore_clock

    clock = [0.0]
    undo = patch_httpcore_clock(lambda: clock[0])
    try:
        net = SimNet(world_h1())
        if fault:
            net.fault_plan[fault[0]] = fault[1]
        kw = dict(pool_kwargs)
        kw["network_backend"] = SimBackend(net)
        pool = httpcore.ConnectionPool(**kw)
        resp, its, log = {}, {}, []
        for st in script:
            k = st[0]
            try:
                if k == "open":
                    u = st[2]
                    resp[st[1]] = pool.handle_request(httpcore.Request("GET", u, headers=[(b"Host", httpcore.URL(u).host), (b"X-Tok", st[1].encode())], extensions=dict(st[3]) if len(st) > 3 else {}))
                    log.append(_step_log(k, st[1], "ok", n=resp[st[1]].status))
                elif k == "read":
                    it = its.setdefault(st[1], resp[st[1]].iter_stream())
                    data = b""
                    for _ in range(st[2]):
                        data += next(it)
                    log.append(_step_log(k, st[1], "ok", data))
                elif k == "readall":
                    if st[1] in its:
                        data = b"".join(its[st[1]])
                    else:
                        data = resp[st[1]].read()
                    log.append(_step_log(k, st[1], "ok", data))
                elif k == "reread":
                    data = b"".join(resp[st[1]].iter_stream())
                    log.append(_step_log(k, st[1], "ok", data))
                elif k == "content":
                    log.append(_step_log(k, st[1], "ok", resp[st[1]].content))
                elif k == "close":
                    resp[st[1]].close()
                    log.append(_step_log(k, st[1], "ok"))
                elif k == "advance":
                    clock[0] = float(st[1])
                elif k == "peerclose":
                    for rec in net.streams:
                        if rec.open:
                            net.peer_close(rec.sid)
                elif k == "state":
                    log.append(_step_log(k, "", "ok", ("|".join(c.info() for c in pool.connections) + repr(pool)).encode(), n=len(pool.connections)))
            except WouldHang:
                log.append(_step_log(k, st[1] if len(st) > 1 else "", "hang"))
            except StopIteration:
                log.append(_step_log(k, st[1], "StopIteration"))
            except BaseException as e:  # noqa
                log.append(_step_log(k, st[1] if len(st) > 1 else "", type(e).__name__))
        return log + op_log(net)
    finally:
        undo()


def script_async(pool_kwargs, script, fault=None):
    from .simnet import AsyncSimBackend
    from .vloop import VLoop, patch_httpcore_clock

    loop = VLoop()
    loop.enter()
    undo = patch_httpcore_clock(lambda: loop.vt)
    net = SimNet(world_h1(), current_task=lambda: "main")
    kw = dict(pool_kwargs)
    kw["network_backend"] = AsyncSimBackend(net)
    pool = httpcore.AsyncConnectionPool(**kw)
    resp, its, log = {}, {}, []

    async def main():
        for st in script:
            k = st[0]
            try:
                if k == "open":
                    u = st[2]
                    resp[st[1]] = await pool.handle_async_request(httpcore.Request("GET", u, headers=[(b"Host", httpcore.URL(u).host), (b"X-Tok", st[1].encode())], extensions=dict(st[3]) if len(st) > 3 else {}))
                    log.append(_step_log(k, st[1], "ok", n=resp[st[1]].status))
                elif k == "read":
                    it = its.setdefault(st[1], resp[st[1]].aiter_stream().__aiter__())
                    data = b""
                    for _ in range(st[2]):
                        try:
                            data += await it.__anext__()
                        except StopAsyncIteration:
                            raise StopIteration
                    log.append(_step_log(k, st[1], "ok", data))
                elif k == "readall":
                    if st[1] in its:
                        data = b""
                        async for ch in its[st[1]]:
                            data += ch
                    else:
                        data = await resp[st[1]].aread()
                    log.append(_step_log(k, st[1], "ok", data))
                elif k == "reread":
                    data = b""
                    async for ch in resp[st[1]].aiter_stream():
                        data += ch
                    log.append(_step_log(k, st[1], "ok", data))
                elif k == "content":
                    log.append(_step_log(k, st[1], "ok", resp[st[1]].content))
                elif k == "close":
                    await resp[st[1]].aclose()
                    log.append(_step_log(k, st[1], "ok"))
                elif k == "advance":
                    loop.advance_to(float(st[1]))
                elif k == "peerclose":
                    for rec in net.streams:
                        if rec.open:
                            net.peer_close(rec.sid)
                elif k == "state":
                    log.append(_step_log(k, "", "ok", ("|".join(c.info() for c in pool.connections) + repr(pool).replace("Async", "")).encode(), n=len(pool.connections)))
            except StopIteration:
                log.append(_step_log(k, st[1], "StopIteration"))
            except RuntimeError as e:
                if "StopIteration" in str(e):
                    log.append(_step_log(k, st[1], "StopIteration"))
                else:
                    log.append(_step_log(k, st[1] if len(st) > 1 else "", type(e).__name__))
            except BaseException as e:  # noqa
                log.append(_step_log(k, st[1] if len(st) > 1 else "", type(e).__name__))
        # (body iterators the script left unfinished are finalised inside the loop, not by the
        #  garbage collector after it has gone; nothing is logged for this)
        nlog, nops = len(log), len(net.ops)
        for it in list(its.values()):
            try:
                await it.aclose()
            except BaseException:  # noqa
                pass
        del log[nlog:]
        tail_ops.append(nops)

    tail_ops = []
    t = loop.create_task(main())
    seqmap = {}
    for _ in range(50000):
        while loop.step() is not False:
            pass
        if t.done():
            break
        ready = [op for op in net.pending if op.fut is not None and not op.fut.done() and net.ready(op)]
        if not ready:
            break
        op = ready[0]
        res = net.resolve(op, fault=(fault[1] if fault and op.seq == fault[0] else None))
        (op.fut.set_result if res[0] == "ok" else op.fut.set_exception)(res[1])
    if not t.done():
        log.append(_step_log("hang", "", "hang"))
        t.cancel()
        while loop.step() is not False:
            pass
    undo()
    loop.shutdown()
    if tail_ops:
        net.ops = net.ops[: tail_ops[0]]
    return log + op_log(net)


def mock_backend_scripts(quick):
    """(family, script): 'body' = two sequential GETs whose response bodies arrive in the given segments;
    'upgrade' = a 101 response followed by reads of the handed-over stream with the given max_bytes."""
    out = []
    R = 65536
    sizes = [[R], [R, 13], [R - 1, 14], [R + 1, 12], [R, R, 1], [5, R, 5], [1]]
    for i, segs in enumerate(sizes):
        out.append(("body", {"id": f"body-{i}", "segs": segs}))
    for n in (1, 3, 7):
        for tail in ([n], [n, 2], [n - 1 or 1, n], [n + 1, n], [n, n, n]):
            out.append(("upgrade", {"id": f"upgrade-{n}-{'-'.join(map(str, tail))}", "max_bytes": n, "segs": tail, "reads": len(tail) + 3}))
    return out


def _mock_buffers(fam, script):
    if fam == "body":
        total = sum(script["segs"])
        body = (bytes(range(256)) * (total // 256 + 1))[:total]
        segs, pos = [], 0
        for n in script["segs"]:
            segs.append(body[pos : pos + n])
            pos += n
        head = b"HTTP/1.1 200 OK\r\nContent-Length: %d\r\n\r\n" % total
        one = [head] + segs
        return one + one
    tail = []
    k = 0
    for n in script["segs"]:
        tail.append(bytes((k + j) % 251 for j in range(n)))
        k += n
    return [b"HTTP/1.1 101 Switching Protocols\r\nConnection: upgrade\r\nUpgrade: verif\r\n\r\n"] + tail


def mock_sync(fam, script):
    log = []
    try:
        with httpcore.ConnectionPool(network_backend=httpcore.MockBackend(_mock_buffers(fam, script)), max_connections=1) as pool:
            if fam == "body":
                for k in range(2):
                    try:
                        r = pool.request("GET", "http://mock.test/%d" % k)
                        log.append(_step_log("response", "r", "ok", r.content, r.status))
                    except Exception as e:  # noqa
                        log.append(_step_log("response", "r", type(e).__name__))
                    log.append(_step_log("pool", "p", "|".join(norm_info(c.info()) for c in pool.connections)))
            else:
                with pool.stream("GET", "http://mock.test/up", headers=[("Connection", "upgrade"), ("Upgrade", "verif")]) as r:
                    log.append(_step_log("response", "r", "ok", b"", r.status))
                    ns = r.extensions["network_stream"]
                    for _ in range(script["reads"]):
                        try:
                            d = ns.read(max_bytes=script["max_bytes"])
                            log.append(_step_log("nsread", "r", "ok", d, len(d)))
                        except Exception as e:  # noqa
                            log.append(_step_log("nsread", "r", type(e).__name__))
                log.append(_step_log("pool", "p", "|".join(norm_info(c.info()) for c in pool.connections)))
    except Exception as e:  # noqa
        log.append(_step_log("outer", "x", type(e).__name__))
    return log


def mock_async(fam, script):
    import asyncio

    log = []

    async def main():
        try:
            async with httpcore.AsyncConnectionPool(network_backend=httpcore.AsyncMockBackend(_mock_buffers(fam, script)), max_connections=1) as pool:
                if fam == "body":
                    for k in range(2):
                        try:
                            r = await pool.request("GET", "http://mock.test/%d" % k)
                            log.append(_step_log("response", "r", "ok", r.content, r.status))
                        except Exception as e:  # noqa
                            log.append(_step_log("response", "r", type(e).__name__))
                        log.append(_step_log("pool", "p", "|".join(norm_info(c.info()) for c in pool.connections)))
                else:
                    async with pool.stream("GET", "http://mock.test/up", headers=[("Connection", "upgrade"), ("Upgrade", "verif")]) as r:
                        log.append(_step_log("response", "r", "ok", b"", r.status))
                        ns = r.extensions["network_stream"]
                        for _ in range(script["reads"]):
                            try:
                                d = await ns.read(max_bytes=script["max_bytes"])
                                log.append(_step_log("nsread", "r", "ok", d, len(d)))
                            except Exception as e:  # noqa
                                log.append(_step_log("nsread", "r", type(e).__name__))
                    log.append(_step_log("pool", "p", "|".join(norm_info(c.info()) for c in pool.connections)))
        except Exception as e:  # noqa
            log.append(_step_log("outer", "x", type(e).__name__))

    asyncio.run(main())
    return log


def unasync_diff():
    """Fresh translation of httpcore/_async with the repository's own rules, compared with
    httpcore/_sync over the full length of every file.  -> list of differences."""
    import importlib.util

    repo = os.path.dirname(os.path.dirname(httpcore.__file__))
    spec = importlib.util.spec_from_file_location("unasync_rules", os.path.join(repo, "scripts", "unasync.py"))
    mod = importlib.util.module_from_spec(spec)
    spec.loader.exec_module(mod)
    diffs = []
    programs = 0
    adir = os.path.join(repo, "httpcore", "_async")
    sdir = os.path.join(repo, "httpcore", "_sync")
    for fn in sorted(os.listdir(adir)):
        if not fn.endswith(".py"):
            continue
        programs += 1
        with open(os.path.join(adir, fn)) as f:
            expected = [mod.unasync_line(ln) for ln in f.readlines()]
        try:
            with open(os.path.join(sdir, fn)) as f:
                actual = f.readlines()
        except FileNotFoundError:
            diffs.append((fn, 0, "missing in _sync", ""))
            continue
        for i in range(max(len(expected), len(actual))):
            e = expected[i] if i < len(expected) else "<no line>"
            a = actual[i] if i < len(actual) else "<no line>"
            if e != a:
                diffs.append((fn, i + 1, e.rstrip("\n"), a.rstrip("\n")))
                break
    for fn in sorted(os.listdir(sdir)):
        if fn.endswith(".py") and not os.path.exists(os.path.join(adir, fn)):
            diffs.append((fn, 0, "extra file in _sync", ""))
    # the translator itself: "the mechanical DE-ASYNC translation" - every rule of its table rewrites an
    # async construct (keyword, Async* name, a-prefixed protocol method, async runtime / backend name);
    # a rule that rewrites anything else changes what the sync tree DOES, not how it waits
    import re

    asyncish = re.compile(r"async|await|Async|anyio|trio|AutoBackend|__a(enter|exit|iter|next)__|^a(close|iter_stream|read|iter|next)$")
    for pat, repl in getattr(mod, "SUBS", []):
        if not asyncish.search(pat):
            diffs.append(("scripts/unasync.py", 0, f"rule {pat!r} -> {repl!r} does not rewrite an async construct", ""))
    return programs, diffs


CFG = "SPECIFICATION TSpec\nCONSTRAINT Mark\nPOSTCONDITION Post\nCHECK_DEADLOCK FALSE\n"


def validate(traces):
    res, stats = tlc.validate_traces("SyncAsync", CFG, [{"a": t["a"], "s": t["s"]} for t in traces], nd=1)
    return [r[0] for r in res], stats


def run(prop, tier):
    chk = Check(prop, tier, "model_checking")
    rng = random.Random(seed())
    quick = tier == "quick"
    tlc.sany("SyncAsync.tla")
    traces = []
    # 1. pool histories, sequential, fault-free and with a fault at every operation
    from .explore import FAULTS_BY_KIND

    for name in SEQ_SCENARIOS:
        scen = SCENARIOS[name]
        base = run_sync(scen, None)
        traces.append({"a": run_async(scen, None), "s": base, "what": ["pool", name, None]})
        idx = [(i, e["k"]) for i, e in enumerate(base) if e["k"] in FAULTS_BY_KIND]
        if quick:
            idx = idx[::3]
        for i, k in idx:
            for f in FAULTS_BY_KIND[k][: (1 if quick else 3)]:
                if f == "EOF":
                    continue
                traces.append({"a": run_async(scen, (i, f)), "s": run_sync(scen, (i, f)), "what": ["pool", name, [i, f]]})
    # 1b. scripted histories (nested responses, virtual time, response object protocol)
    for name, (pkw, script) in SCRIPTS.items():
        base = script_sync(pkw, script)
        traces.append({"a": script_async(pkw, script), "s": base, "what": ["script", name, None]})
        idx = [(i, e["k"]) for i, e in enumerate([e for e in base if e["k"] in FAULTS_BY_KIND or e["k"] in ("close",)]) if e["k"] in FAULTS_BY_KIND]
        nops = len([e for e in base if e["k"] in ("connect_tcp", "start_tls", "read", "write", "close", "sleep")])
        ops_only = [e for e in base if e["k"] in ("connect_tcp", "start_tls", "read", "write", "close", "sleep")]
        for i, e in enumerate(ops_only):
            if e["k"] in FAULTS_BY_KIND and (not quick or i % 2 == 0):
                f = FAULTS_BY_KIND[e["k"]][0]
                traces.append({"a": script_async(pkw, script, (i, f)), "s": script_sync(pkw, script, (i, f)), "what": ["script", name, [i, f]]})
            # an exception that is NOT an Exception (what KeyboardInterrupt / a user abort look like) out of a
            # network operation: both trees clean up alike, and say the same about the pool afterwards
            if e["k"] in ("read", "write") and (not quick or i % 3 == 0):
                traces.append({"a": script_async(pkw, script, (i, "HarnessAbort")), "s": script_sync(pkw, script, (i, "HarnessAbort")), "what": ["script", name, [i, "HarnessAbort"]]})
    # 2. establishment: the case matrix with single-failure scripts
    cases = E.all_cases(lambda c: c["tmo"] and c["retries"] in (0, 1) and not c["uds"] and c["phdr"] in ("none", "collide") and c["body"] == (c["phdr"] == "collide"))
    if quick:
        cases = rng.sample(cases, 120)
    for c in cases:
        for outcomes, refuse in [([], None), (["ConnectError"], None), (["ok", "ConnectTimeout"], None), ([], "connect"), ([], "socks-connect")]:
            if refuse == "connect" and not (c["proxy"] in ("http", "https") and c["scheme"] != "http"):
                continue
            if refuse == "socks-connect" and c["proxy"] != "socks5":
                continue
            ta = E.record(c, outcomes, refuse, "async")
            ts = E.record(c, outcomes, refuse, "sync")
            fa = [dict(o, carries="+".join(o["carries"])) if "carries" in o else o for o in ta["ops"]]
            fs = [dict(o, carries="+".join(o["carries"])) if "carries" in o else o for o in ts["ops"]]
            # one flat schema for TLC's record equality
            def flat(ops, res):
                out = []
                for o in ops:
                    out.append({"k": o["op"], "sid": -1, "t": -1, "n": 0, "d": digest(repr(sorted(o.items())).encode()), "r": o.get("res", "")})
                out.append({"k": "outcome", "sid": -1, "t": -1, "n": 0, "d": 0, "r": res})
                return out

            traces.append({"a": flat(fa, ta["result"]), "s": flat(fs, ts["result"]), "what": ["establish", c, outcomes, refuse]})
    # 3. request shapes on the wire
    shapes = list(all_shapes())
    rng.shuffle(shapes)
    for s in shapes[: (150 if quick else 2500)]:
        oa, _ = transmit_async(s)
        os_, _ = transmit_sync(s)

        def flat2(obs):
            return [{"k": "tx", "sid": -1, "t": -1, "n": o.get("written", 0), "d": digest(repr((o.get("method"), o.get("target"), o.get("headers"), o.get("body"), o.get("endOnHeaders"), o.get("ended"))).encode()), "r": o["kind"]} for o in obs]

        traces.append({"a": flat2(oa), "s": flat2(os_), "what": ["reqwire", s]})
    # 4. the library's OWN mock back ends (httpcore.MockBackend / AsyncMockBackend are public API and
    #    hand-written twins, not translated): scripted segments whose lengths sit around the size of the
    #    read that consumes them (the 64 KiB connection reads; max_bytes of a read on an upgraded stream)
    nmock = 0
    for fam, script in mock_backend_scripts(quick):
        traces.append({"a": mock_async(fam, script), "s": mock_sync(fam, script), "what": ["mock-backend", fam, script["id"]]})
        nmock += 1
    chk.coverage["mock_backend_scripts"] = nmock
    verdicts, stats = validate(traces)
    rejected = [(t, v) for t, v in zip(traces, verdicts) if v[0] != "ACCEPT"]
    accepted = [t for t, v in zip(traces, verdicts) if v[0] == "ACCEPT"]
    # canaries
    base = next(t for t in accepted if len(t["a"]) >= 6)
    c1 = copy.deepcopy(base)
    c1["s"][3]["d"] ^= 1
    c2 = copy.deepcopy(base)
    c2["s"] = c2["s"][:-1]
    c3 = copy.deepcopy(base)
    c3["a"][-1]["r"] = "ReadError" if c3["a"][-1]["r"] != "ReadError" else "ok"
    cres, _ = validate([c1, c2, c3])
    can = {}
    for name, v in zip(["one-byte-differs", "sync-log-shorter", "exception-class-differs"], cres):
        can[name] = v[0]
        if v[0] == "ACCEPT":
            raise tlc.MachineryError(f"canary '{name}' was ACCEPTED: SyncAsync does not bind")
    for t, v in rejected:
        i = v[1] - 1
        what = f"sync and async diverge at step {v[1]} of scenario {t['what']}: async={t['a'][i] if i < len(t['a']) else '<end>'} sync={t['s'][i] if i < len(t['s']) else '<end>'}"
        chk.classify({"module": "SyncAsync", "deviation": ["<none>"], "stimulus": [str(t["what"][0])]}, what, {"trace": {"a": t["a"], "s": t["s"]}, "what": t["what"], "verdict": list(v)})
    programs, diffs = unasync_diff()
    for fn, line, exp, act in diffs:
        chk.violation(f"httpcore/_sync/{fn} is not the mechanical translation of httpcore/_async/{fn}: line {line}: expected {exp!r}, found {act!r}", {"file": fn, "line": line, "expected": exp, "actual": act, "kind": "translation"})
    cov = chk.coverage
    cov["states"] = max(1, stats.get("distinct", 0))
    cov["transitions"] = max(1, stats.get("states", 0))
    cov["evaluations"] = 2 * len(traces)
    cov["distinct_nontrivial"] = sum(1 for t in traces if len(t["a"]) >= 3)
    cov["rule"] = "one evaluation = one scenario run through one variant (each scenario is run through both); non-trivial = at least three logged steps"
    cov["traces_validated_against_impl"] = len(accepted)
    cov["traces_rejected"] = len(rejected)
    cov["canaries"] = can
    cov["translation_side_check"] = {"programs": programs, "differences": len(diffs), "note": "outside the TLA+ family: full-length comparison of httpcore/_sync with a fresh run of scripts/unasync.py rules"}
    cov["samples"] = [{"what": t["what"], "steps": len(t["a"]), "first": t["a"][:2]} for t in (traces[:1] + traces[len(traces) // 2 : len(traces) // 2 + 1] + traces[-1:])]
    cov["checker_cmd"] = "tlc -workers 1 -config <generated> SyncAsync.tla (TRACE_FILE=<batch>.json), sharded"
    cov["trusted_base"] = ["TLC 1.8.0", "the two drivers (virtual loop for async, direct calls for sync) present the same simulated network", "crc32 digests stand for byte strings"]
    chk.assumptions += ["single-caller scenarios only (concurrency differs by construction: tasks vs threads, C08)", "byte strings are compared through 28-bit crc32 digests and lengths"]
    return chk.finish()
