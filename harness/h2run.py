"""Driver for HTTP/2 scenarios: the real pool (http2 only) talks to a DRIVER-CONTROLLED HTTP/2
server.  What the server sends (SETTINGS changes, HEADERS / DATA per stream, RST_STREAM, GOAWAY,
WINDOW_UPDATE) are stimuli chosen like every other stimulus; the frames of both directions are
logged in their total order for spec/H2Wire.tla."""
from __future__ import annotations

import httpcore

from .driver import AsyncRun, Call, default_decide
from .peers import H2Decoder, H2ServerPeer
from .simnet import World


class H2Run(AsyncRun):
    def __init__(self, calls, pool_kwargs=None, srv=None, body_frames=(6, 6), uploads=None):
        kw = dict(max_connections=2, http1=False, http2=True)
        kw.update(pool_kwargs or {})
        self.srv = dict(settings=[], goaway=None, rst=[], window=None, init_settings=None, wu_unit=None, early_head=False, start_after_ack=False)
        self.srv.update(srv or {})
        self.body_frames = body_frames
        self.peers = []
        self.wire = []  # total order of wire events of connection 0 (and caller events)
        self.cdec = {}  # sid -> H2Decoder over what the client has written so far (at issue time)
        self.progress = {}  # (conn, stream) -> server-side progress of the answer
        self.settings_sent = 0
        self.goaway_sent = False
        self.goaway_delivered = False
        self.rst_done = set()
        self.srv_blocked = set()
        self.big_body = None
        super().__init__(kw, calls, world=World(default=self._factory))
        self.net.on_op = self._on_op_h2

    # ---- peers ----
    def _factory(self, rec):
        init = self.srv.get("init_settings")
        p = H2ServerPeer(auto=False, settings=init)
        p.auto_ack_data = self.srv.get("window") is None
        first = len(self.peers) == 0
        self.peers.append(p)
        if first:
            orig = p.feed

            def feed(data, orig=orig, p=p):
                was = p.started
                out = orig(data)
                if not was and p.started:
                    self.wire.append(self.initial_settings_event())
                    late = getattr(p, "late_settings", None)
                    if late:
                        import h2.settings

                        self.wire.append({"e": "S_SETTINGS", "mcs": -1, "iws": int(late.get(h2.settings.SettingCodes.INITIAL_WINDOW_SIZE, -1)), "mfs": -1})
                return out

            p.feed = feed
        return p

    # ---- wire log ----
    def _on_op_h2(self, op, phase):
        self._on_op(op, phase)
        if op.kind == "write" and phase == "start" and op.sid is not None:
            d = self.cdec.setdefault(op.sid, H2Decoder())
            nb = len(d.frames)
            d.feed(op.args.get("data", b""))
            if op.sid == 0:
                for name, sid, flags, length in d.frames[nb:]:
                    self._client_frame(name, sid, flags, length, d)
        if op.kind == "close" and phase == "start" and op.sid == 0 and not any(e["e"] == "C_CLOSE" for e in self.wire[-1:]):
            # own: the streams of the caller whose task closes the connection (its own clean-up may do that)
            call = self.calls.get(op.task)
            self.wire.append({"e": "C_CLOSE", "own": self._stream_of(call.tok, 0) if call is not None else []})
        if op.kind == "read" and phase == "done" and op.sid == 0 and self.goaway_sent and not self.goaway_delivered:
            rec = self.net.streams[0]
            if rec.delivered >= self.goaway_off:
                self.goaway_delivered = True
                self.wire.append({"e": "DELIVER_GOAWAY"})

    def _client_frame(self, name, sid, flags, length, d):
        if name == "HEADERS":
            self.wire.append({"e": "C_HEADERS", "sid": sid, "end": "END_STREAM" in flags})
        elif name == "DATA":
            self.wire.append({"e": "C_DATA", "sid": sid, "n": length, "end": "END_STREAM" in flags})
        elif name == "SETTINGS":
            if "ACK" in flags:
                self.wire.append({"e": "C_ACK"})
        elif name == "WINDOWUPDATE":
            self.wire.append({"e": "C_WU", "sid": sid, "n": d.window_updates[-1][1]})
        elif name == "RSTSTREAM":
            self.wire.append({"e": "C_RST", "sid": sid})

    def event(self, ev, **kw):
        super().event(ev, **kw)
        if ev == "Return":
            name = kw["r"]
            call = self.calls[name]
            out = self.outcome.get(name, {})
            sids = self._stream_of(call.tok, 0)
            expect = self.big_body if (self.big_body and "/big" in call.url) else b"body-of-" + call.tok.encode()
            full = call.consume == "all"
            got = out.get("body") or b""
            own = out.get("tok") == call.tok and out.get("status") == 200 and (got == expect if full else expect.startswith(got))
            elsewhere = any(self._stream_of(call.tok, k) for k in range(1, len(self.net.streams)))
            # C03 "for every transmission attempt": every COMPLETE transmission of this call's request, on
            # whatever connection, carried exactly the caller's body (a re-sent request included)
            want = self._body_of_call(call)
            reqok = True
            for rec in self.net.streams:
                peer = rec.peer
                for r_ in getattr(peer, "heads", []):
                    if r_.token == call.tok.encode() and r_.complete and want is not None and r_.body != want:
                        reqok = False
            self.wire.append(
                {
                    "e": "RET",
                    "r": name,
                    "sid": sids[-1] if sids else 0,
                    "out": ("ok" if full else "abandoned") if kw.get("out") == "ok" else ("cancelled" if kw.get("out") == "cancelled" else "exc:" + str(kw.get("exc"))),
                    "own": bool(own),
                    "blen": len(out.get("body", b"") or b""),
                    "retried": bool(elsewhere),
                    "reqok": reqok,
                    # a head HTTP/2 cannot encode (a TE value other than "trailers"): C03 wants it rejected
                    # with LocalProtocolError and nothing of it written
                    "illegal": any(k.lower() == b"te" and v != b"trailers" for k, v in call.headers),
                }
            )

    def _body_of_call(self, call):
        """The caller's request body as bytes (None if it cannot be told)."""
        c = call.content
        if c is None:
            return b""
        if isinstance(c, bytes):
            return c
        if isinstance(c, tuple) and c and c[0] == "gated":
            return b"".join(c[1])
        if isinstance(c, (list, tuple)):
            return b"".join(c)
        return None

    def _stream_of(self, tok, conn):
        if conn >= len(self.net.streams):
            return []
        peer = self.net.streams[conn].peer
        return [r.stream_id for r in peer.heads if r.token == tok.encode()]

    # ---- server stimuli ----
    def enabled(self):
        en = super().enabled()
        if self.srv.get("start_after_ack"):
            # the first call warms the connection up; the others start only once the client has
            # acknowledged every SETTINGS frame sent so far (so that the advertised windows BIND it)
            sent = sum(1 for e in self.wire if e["e"] == "S_SETTINGS")
            acked = sum(1 for e in self.wire if e["e"] == "C_ACK")
            if acked < max(1, sent):
                en = [x for x in en if not (x[0] == "start" and x[1] != self.order[0])]
        for ci, rec in enumerate(self.net.streams):
            peer = rec.peer
            if not isinstance(peer, H2ServerPeer) or not rec.open or peer.closed or not peer.started:
                continue
            import h2.connection

            if peer.conn.state_machine.state == h2.connection.ConnectionState.CLOSED:
                en.append(("srv", ci, "close"))  # the client has said GOAWAY: the server hangs up
                continue
            for sid, req in sorted(peer.by_stream.items()):
                pr = self.progress.setdefault((ci, sid), {"head": False, "frames": 0, "done": False})
                # early_head: a streaming / echo-style server sends its response HEADERS as soon as it
                # has the request head, while the upload is still going on (and blocked on its window)
                if not req.complete and not (self.srv.get("early_head") and not pr["head"]):
                    continue
                if pr["done"] or (ci, sid) in self.rst_done:
                    continue
                if ci == 0 and self.goaway_sent and sid > self.srv["goaway"]:
                    continue  # refused: the server will not process it
                if self.srv.get("hold_until_uploads") and not req.body and any(not r.complete for r in peer.by_stream.values()):
                    continue  # a long-poll: answered only once every upload on the connection is complete
                if self.srv.get("hold_until_uploads") and not req.body and len(peer.by_stream) < self.srv["hold_until_uploads"]:
                    continue
                if pr["head"] and not self._window_allows(peer, sid, pr):
                    self.srv_blocked.add((ci, sid))
                    continue
                self.srv_blocked.discard((ci, sid))
                en.append(("srv", ci, "next", sid))
            if ci == 0:
                if self.settings_sent < len(self.srv["settings"]):
                    # one SETTINGS frame outstanding at a time: the h2 library on the server side applies the
                    # OLDEST pending change on every ACK it receives and does not count the frame sent with
                    # the preface, so with several frames in flight it would enforce a change one ACK early
                    # (and answer a client that is within its rights with FLOW_CONTROL_ERROR)
                    owed = 1 + (1 if getattr(peer, "late_settings", None) else 0) + self.settings_sent
                    if peer.events_log.count("SettingsAcknowledged") >= owed:
                        en.append(("srv", 0, "settings"))
                if self.srv["goaway"] is not None and not self.goaway_sent and peer.by_stream:
                    # a consistent server: it has not started to answer any stream it then refuses
                    if not any(pr.get("head") for (c2, s2), pr in self.progress.items() if c2 == 0 and s2 > self.srv["goaway"]):
                        en.append(("srv", 0, "goaway"))
                if self.goaway_sent and not any(x[0] == "srv" and x[1] == 0 for x in en):
                    en.append(("srv", 0, "close"))
                for sid in self.srv["rst"]:
                    if sid in peer.by_stream and (0, sid) not in self.rst_done and not self.progress.get((0, sid), {}).get("done"):
                        en.append(("srv", 0, "rst", sid))
                if self.srv["window"] is not None:
                    for sid, req in sorted(peer.by_stream.items()):
                        if not req.complete and peer.conn.remote_flow_control_window(sid) if False else False:
                            pass
                    for tgt in self._starved(peer):
                        en.append(("srv", 0, "wu", tgt))
        return en

    def _frames_for(self, req):
        cached = getattr(req, "_frames_cache", None)
        if cached is not None:
            return cached
        frames = self._frames_compute(req)
        try:
            req._frames_cache = frames
        except Exception:
            pass
        return frames

    def _frames_compute(self, req):
        body = self.body_for(req)
        frames = []
        pos = 0
        for n in self.body_frames:
            if pos < len(body):
                frames.append(body[pos : pos + n])
                pos += n
        while pos < len(body):
            n = self.body_frames[-1] if self.body_frames else len(body)
            frames.append(body[pos : pos + n])
            pos += n
        return frames

    def body_for(self, req):
        if self.big_body and (req.target or b"").startswith(b"/big"):
            return self.big_body
        return b"body-of-" + (req.token or b"?")

    def _window_allows(self, peer, sid, pr):
        frames = self._frames_for(peer.by_stream[sid])
        if pr["frames"] >= len(frames):
            return True
        try:
            pad = self.srv.get("pad")
            return peer.conn.local_flow_control_window(sid) >= len(frames[pr["frames"]]) + ((pad + 1) if pad else 0)
        except Exception:
            return True

    def _starved(self, peer):
        """Windows (stream ids, 0 = connection) a well-behaved server would reopen: an upload is
        in progress and the receive window it has advertised is exhausted."""
        out = []
        c = peer.conn
        uploading = [sid for sid, r in peer.by_stream.items() if not r.complete]
        if not uploading:
            return out
        if c.inbound_flow_control_window <= 0:
            out.append(0)
        for sid in uploading:
            if sid in c.streams and c.streams[sid].inbound_flow_control_window <= 0:
                out.append(sid)
        return out

    def apply(self, st):
        if st[0] != "srv":
            return super().apply(st)
        self.decisions.append(list(st))
        ci, what = st[1], st[2]
        rec = self.net.streams[ci]
        peer = rec.peer
        c = peer.conn
        log = ci == 0
        if what == "next":
            sid = st[3]
            req = peer.by_stream[sid]
            pr = self.progress[(ci, sid)]
            frames = self._frames_for(req)
            if not pr["head"]:
                c.send_headers(sid, [(b":status", b"200"), (b"x-tok", req.token or b"?")], end_stream=False)
                pr["head"] = True
                if log:
                    self.wire.append({"e": "S_HEADERS", "sid": sid, "final": True, "end": False})
            elif pr["frames"] < len(frames):
                i = pr["frames"]
                last = i == len(frames) - 1
                pad = self.srv.get("pad")
                c.send_data(sid, frames[i], end_stream=last, pad_length=pad)  # (enabled() made sure the window allows it)
                pr["frames"] += 1
                if log:
                    self.wire.append({"e": "S_DATA", "sid": sid, "n": len(frames[i]), "end": last})
                if last:
                    pr["done"] = True
                    peer.open_streams.discard(sid)
            else:
                pr["done"] = True
        elif what == "settings":
            val = self.srv["settings"][self.settings_sent]
            self.settings_sent += 1
            import h2.settings

            upd = {}
            if "mcs" in val:
                upd[h2.settings.SettingCodes.MAX_CONCURRENT_STREAMS] = val["mcs"]
            if "iws" in val:
                upd[h2.settings.SettingCodes.INITIAL_WINDOW_SIZE] = val["iws"]
            if "mfs" in val:
                upd[h2.settings.SettingCodes.MAX_FRAME_SIZE] = val["mfs"]
            c.update_settings(upd)
            self.wire.append({"e": "S_SETTINGS", "mcs": val.get("mcs", -1), "iws": val.get("iws", -1), "mfs": val.get("mfs", -1)})
        elif what == "goaway":
            self.goaway_sent = True
            last = self.srv["goaway"]
            # a graceful shutdown: the GOAWAY frame is written by hand so that the server's own
            # state machine stays open for the streams it still answers (<= last-stream-id)
            import hyperframe.frame as hf

            g = hf.GoAwayFrame(0)
            g.last_stream_id = last
            g.error_code = 0
            self.raw_extra = g.serialize()
            self.wire.append({"e": "S_GOAWAY", "last": last})
        elif what == "close":
            # the graceful shutdown ends: the server hangs up
            peer.closed = True
            rec.eof = True
            return
        elif what == "rst":
            sid = st[3]
            c.reset_stream(sid, error_code=2)
            self.rst_done.add((0, sid))
            peer.open_streams.discard(sid)
            self.wire.append({"e": "S_RST", "sid": sid})
        elif what == "wu":
            tgt = st[3]
            n = self.srv.get("wu_unit") or self.srv["window"]
            c.increment_flow_control_window(n, tgt if tgt else None)
            self.wire.append({"e": "S_WU", "sid": tgt, "n": n})
        out = c.data_to_send() + getattr(self, "raw_extra", b"")
        self.raw_extra = b""
        peer.sent += len(out)
        if what == "goaway":
            self.goaway_off = rec.produced + len(out)
        rec.push(out)
        if what == "goaway":
            pass

    def quiesce(self):
        super().quiesce()
        if self.goaway_delivered and (not self.wire or self.wire[-1].get("e") != "QUIESCENT"):
            self.wire.append({"e": "QUIESCENT"})

    def initial_settings_event(self):
        """The server's first SETTINGS frame (sent with its preface reply)."""
        ls = self.peers[0].conn.local_settings
        return {"e": "S_SETTINGS", "mcs": int(ls.max_concurrent_streams), "iws": int(ls.initial_window_size), "mfs": int(ls.max_frame_size)}


def h2_decide(run, en):
    """Default schedule for HTTP/2: arrivals, then the network (client operations), then the
    server's next frames, then the clock."""
    for kind in ("start", "gate", "op"):
        for st in en:
            if st[0] == kind:
                return st
    for st in en:
        if st[0] == "srv":
            return st
    for st in en:
        if st[0] == "tick":
            return st
    return None


def encode(run):
    """-> trace record for H2WireTrace (connection 0)."""
    ev = [dict(e) for e in run.wire]
    names = {n: i + 1 for i, n in enumerate(run.order)}
    live = []
    for n in run.live():
        for sid in run._stream_of(run.calls[n].tok, 0):
            live.append(sid)
    for e in ev:
        if e["e"] == "RET":
            e["r"] = names.get(e["r"], 0)
    # spin: the client kept running for the whole step budget of a SMALL scenario (a few hundred quanta when
    # it behaves) without any stimulus being applied: it is busy-looping instead of waiting or finishing
    ev.append({"e": "END", "live": sorted(set(live)), "srvblocked": sorted(sid for ci, sid in run.srv_blocked if ci == 0), "spin": bool(getattr(run, "stuck", False))})
    return {"ev": ev}
