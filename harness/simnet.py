"""Simulated network: one ledger (`SimNet`) shared by an async backend, a blocking
single-thread sync backend and a scheduler-aware threaded sync backend.

Every backend call becomes an `Op` record.  In async mode the caller is parked on a future
until the driver resolves the op (with a result or an injected exception); in sync mode the
op is resolved on the spot by `SimNet.auto_outcome`.  All effects on the ledger happen when
an op is *resolved*, never when it is issued, so "cancelled while the write was pending"
means "nothing was written".

The ledger mirrors the documented contract of the real backends (httpcore/_backends/*.py):
  * a start_tls that fails with an Exception closes the underlying socket itself,
    one that is cancelled does not;
  * read on a closed stream raises ReadError; write on a closed stream raises WriteError;
  * empty writes are passed through.
"""
from __future__ import annotations

import threading
import sys
import typing

import httpcore
from httpcore._backends.base import (
    AsyncNetworkBackend,
    AsyncNetworkStream,
    NetworkBackend,
    NetworkStream,
)


class WouldHang(BaseException):
    """A blocking call that could never return (sync single-thread mode)."""


class _NBEvent:
    """threading.Event for a SINGLE-threaded synchronous run: nobody else can ever set it, so a wait
    without a time limit would block for ever (WouldHang), and a wait with one simply times out."""

    def __init__(self):
        self._e = threading.Event()

    def set(self):
        self._e.set()

    def is_set(self):
        return self._e.is_set()

    def clear(self):
        self._e.clear()

    def wait(self, timeout=None):
        if self._e.is_set():
            return True
        if timeout is None:
            raise WouldHang("wait on an event nobody can set")
        return False


class _NBLock:
    def __init__(self):
        self._l = threading.Lock()

    def acquire(self, blocking=True, timeout=-1):
        if self._l.acquire(False):
            return True
        if blocking and timeout in (-1, None):
            raise WouldHang("lock held by the only thread there is")
        return False

    def release(self):
        self._l.release()

    def locked(self):
        return self._l.locked()

    __enter__ = lambda self: self.acquire()

    def __exit__(self, *a):
        self.release()


class _NBSemaphore:
    def __init__(self, value=1):
        self._s = threading.Semaphore(value)

    def acquire(self, blocking=True, timeout=None):
        if self._s.acquire(False):
            return True
        if blocking and timeout is None:
            raise WouldHang("semaphore without a permit and nobody to release one")
        return False

    def release(self, n=1):
        self._s.release(n)


class sync_no_block:
    """Context manager for single-caller runs of the SYNC tree: httpcore's thread primitives are replaced
    (at run time, in the loaded module only) by versions that raise WouldHang instead of blocking the only
    thread for ever - a hang becomes an observable outcome instead of a stuck check."""

    def __enter__(self):
        import types

        import httpcore._synchronization as m

        self._m, self._old = m, m.threading
        m.threading = types.SimpleNamespace(Lock=_NBLock, Event=_NBEvent, Semaphore=_NBSemaphore, RLock=threading.RLock, get_ident=threading.get_ident, current_thread=threading.current_thread)
        return self

    def __exit__(self, *a):
        self._m.threading = self._old


class FakeSSLObject:
    def __init__(self, selected):
        self._selected = selected

    def selected_alpn_protocol(self):
        return self._selected


class FakeSSLContext:
    """Recording stand-in for ssl.SSLContext (no certifi / OpenSSL work)."""

    def __init__(self, name="ctx"):
        self.name = name
        self.alpn = None
        self.alpn_calls = []

    def set_alpn_protocols(self, protos):
        self.alpn = list(protos)
        self.alpn_calls.append(list(protos))


class StreamRec:
    def __init__(self, sid, kind, host, port, path, args):
        self.sid = sid
        self.kind = kind  # "tcp" | "uds"
        self.host = host
        self.port = port
        self.path = path
        self.args = args  # connect arguments (timeout, local_address, socket_options)
        self.tls = []  # list of dict(sni, alpn, selected, ctx, timeout)
        self.open = True
        self.closed_by = None
        self.owner = None  # outermost httpcore connection object on the opener's stack
        self.inner_owner = None
        self.opener = None  # task / thread name
        self.written = []  # list of (bytes, n_tls_layers, timeout, op_seq)
        self.inbuf = bytearray()  # sent by the peer, not yet delivered
        self.delivered = 0
        self.produced = 0
        self.eof = False  # peer closed its side
        self.peer = None
        self.cuts = None  # sorted absolute offsets at which a read must stop
        self.reads = []  # list of (nbytes, timeout, max_bytes)
        self.writers = []  # task names that wrote to it, in order (deduplicated runs)

    @property
    def endpoint(self):
        return f"{self.host}:{self.port}" if self.kind == "tcp" else f"unix:{self.path}"

    def peer_feed(self, data: bytes):
        if self.peer is None:
            return
        out = self.peer.feed(data)
        self.push(out)

    def push(self, out):
        if out:
            self.inbuf += out
            self.produced += len(out)
        if self.peer is not None and getattr(self.peer, "closed", False):
            self.eof = True

    def readable(self):
        return (not self.open) or bool(self.inbuf) or self.eof


class HarnessAbort(BaseException):
    """An exception that is not an Exception (like KeyboardInterrupt, which the event loops treat
    specially): what a clean-up handler written as `except Exception` does not see."""


class Op:
    __slots__ = ("seq", "kind", "task", "sid", "args", "state", "outcome", "fut", "rec", "wrapper", "exc_name")

    def __init__(self, seq, kind, task, sid, args):
        self.seq = seq
        self.kind = kind
        self.task = task
        self.sid = sid
        self.args = args
        self.state = "pending"
        self.outcome = None
        self.fut = None
        self.rec = None
        self.wrapper = None
        self.exc_name = None

    def brief(self):
        return {"seq": self.seq, "kind": self.kind, "task": self.task, "sid": self.sid}


def _owners_on_stack():
    """Outermost and innermost httpcore connection objects among the callers' `self`."""
    f = sys._getframe(2)
    found = []
    ifaces = (httpcore.AsyncConnectionInterface, httpcore.ConnectionInterface)
    while f is not None:
        s = f.f_locals.get("self")
        if s is not None and isinstance(s, ifaces):
            if not found or found[-1] is not s:
                found.append(s)
        f = f.f_back
    if not found:
        return None, None
    return found[-1], found[0]


class SimNet:
    def __init__(self, world=None, current_task=None):
        self.world = world or World()
        self.streams: list[StreamRec] = []
        self.ops: list[Op] = []
        self.pending: list[Op] = []
        self.current_task = current_task or (lambda: "main")
        self.on_op = None  # callback(op, phase) for the recorder; phase in start|done
        self.fault_plan = {}  # op seq (0-based issue order) -> fault name
        self.sleeps = []
        self.log = []  # flat list of (what, ...) in global order, for sequential modules
        self.yield_hook = None  # threads: called before an op is resolved
        self.waiter_factory = None  # trio: what an operation's caller is parked on

    # ---- op creation ------------------------------------------------------
    def new_op(self, kind, sid, **args):
        op = Op(len(self.ops), kind, self.current_task(), sid, args)
        self.ops.append(op)
        self.pending.append(op)
        if self.on_op:
            self.on_op(op, "start")
        return op

    # ---- readiness / resolution ------------------------------------------
    def ready(self, op):
        """Could the op complete *successfully* right now?"""
        if op.kind == "read":
            r = self.streams[op.sid]
            return (not r.open) or bool(r.inbuf) or r.eof
        return True

    def make_exc(self, name, msg="injected"):
        if name == "HarnessAbort":
            return HarnessAbort(msg)
        cls = getattr(httpcore, name, None)
        if cls is None:
            import builtins

            cls = getattr(builtins, name)
        return cls(msg)

    def resolve(self, op, fault=None, nbytes=None):
        """Apply the op to the ledger. Returns ("ok", value) or ("exc", exception)."""
        assert op.state == "pending", op.brief()
        op.state = "done"
        if op in self.pending:
            self.pending.remove(op)
        out = self._apply(op, fault, nbytes)
        op.outcome = out
        if out[0] == "exc":
            op.exc_name = type(out[1]).__name__
        if self.on_op:
            self.on_op(op, "done")
        return out

    def drop(self, op):
        """The caller went away (cancelled) before the op was resolved."""
        if op.state == "pending":
            op.state = "dropped"
            if op in self.pending:
                self.pending.remove(op)
            if self.on_op:
                self.on_op(op, "dropped")

    def _apply(self, op, fault, nbytes):
        k = op.kind
        if k in ("connect_tcp", "connect_unix"):
            if fault:
                return ("exc", self.make_exc(fault))
            a = op.args
            rec = StreamRec(
                len(self.streams),
                "tcp" if k == "connect_tcp" else "uds",
                a.get("host"),
                a.get("port"),
                a.get("path"),
                a,
            )
            rec.opener = op.task
            rec.owner, rec.inner_owner = op.args.pop("_owners", (None, None))
            rec.peer = self.world.peer_for(rec)
            self.streams.append(rec)
            op.sid = rec.sid
            op.rec = rec
            self.log.append(("open", rec.sid, rec.endpoint))
            return ("ok", rec)
        if k == "sleep":
            self.sleeps.append(op.args["seconds"])
            self.log.append(("sleep", op.args["seconds"]))
            return ("ok", None)
        rec = self.streams[op.sid]
        if k == "start_tls":
            if fault:
                # real backends close the socket when the handshake fails with an Exception
                self._close(rec, "tls-failure")
                return ("exc", self.make_exc(fault))
            if not rec.open:
                return ("exc", httpcore.ConnectError("stream closed"))
            ctx = op.args.get("ssl_context")
            offer = list(op.args["alpn_at_call"]) if "alpn_at_call" in op.args else list(getattr(ctx, "alpn", None) or [])
            selected = rec.peer.on_tls(op.args.get("server_hostname"), offer) if rec.peer else None
            rec.tls.append(
                {
                    "sni": op.args.get("server_hostname"),
                    "alpn": offer,
                    "selected": selected,
                    "ctx": getattr(ctx, "name", None),
                    "timeout": op.args.get("timeout"),
                }
            )
            self.log.append(("tls", rec.sid, op.args.get("server_hostname"), tuple(offer), selected))
            return ("ok", rec)
        if k == "write":
            if fault:
                if fault == "WriteError":
                    # a connection that can no longer be written to is gone: the peer's side
                    # is closed as well (reads see EOF instead of blocking for ever)
                    rec.eof = True
                    rec.inbuf.clear()
                return ("exc", self.make_exc(fault))
            if not rec.open:
                return ("exc", httpcore.WriteError("stream closed"))
            data = bytes(op.args["data"])
            rec.written.append((data, len(rec.tls), op.args.get("timeout"), op.seq))
            if not rec.writers or rec.writers[-1] != op.task:
                rec.writers.append(op.task)
            self.log.append(("write", rec.sid, data))
            rec.peer_feed(data)
            return ("ok", None)
        if k == "read":
            if fault == "EOF":
                rec.eof = True
                rec.inbuf.clear()
                rec.reads.append((0, op.args.get("timeout"), op.args.get("max_bytes")))
                return ("ok", b"")
            if fault == "Garbage":
                # the peer violates the protocol: an HTTP/2 WINDOW_UPDATE with increment 0 on stream 0
                # (a connection error for h2; not a status line for HTTP/1.1), then nothing more
                rec.eof = True
                rec.inbuf.clear()
                rec.reads.append((13, op.args.get("timeout"), op.args.get("max_bytes")))
                return ("ok", b"\x00\x00\x04\x08\x00\x00\x00\x00\x00\x00\x00\x00\x00")
            if fault:
                return ("exc", self.make_exc(fault))
            if not rec.open:
                return ("exc", httpcore.ReadError("stream closed"))
            avail = len(rec.inbuf)
            n = min(avail, op.args["max_bytes"])
            if rec.cuts is not None:
                nxt = [c for c in rec.cuts if c > rec.delivered]
                if nxt:
                    n = min(n, nxt[0] - rec.delivered)
            if nbytes is not None:
                n = min(n, nbytes)
            data = bytes(rec.inbuf[:n])
            del rec.inbuf[:n]
            rec.delivered += n
            rec.reads.append((n, op.args.get("timeout"), op.args.get("max_bytes")))
            self.log.append(("read", rec.sid, data))
            return ("ok", data)
        if k == "close":
            self._close(rec, op.task)
            return ("ok", None)
        if k == "sleep":
            self.sleeps.append(op.args["seconds"])
            self.log.append(("sleep", op.args["seconds"]))
            return ("ok", None)
        raise AssertionError(k)

    def _close(self, rec, by):
        if rec.open:
            rec.open = False
            rec.closed_by = by
            self.log.append(("close", rec.sid))
            if rec.peer is not None and hasattr(rec.peer, "on_client_close"):
                rec.peer.on_client_close()

    # ---- sync (non-blocking) resolution -----------------------------------
    def auto_outcome(self, op):
        fault = self.fault_plan.get(op.seq)
        if fault is None and not self.ready(op):
            self.drop(op)
            raise WouldHang(f"{op.kind} on stream {op.sid} would block forever")
        out = self.resolve(op, fault=fault)
        if out[0] == "exc":
            raise out[1]
        return out[1]

    # ---- queries -----------------------------------------------------------
    def open_streams(self):
        return [r for r in self.streams if r.open]

    def peer_close(self, sid):
        """The server closes its side of the connection."""
        r = self.streams[sid]
        r.eof = True
        if r.peer is not None:
            r.peer.closed = True


# ---------------------------------------------------------------------------
# async front end
# ---------------------------------------------------------------------------
class AsyncSimStream(AsyncNetworkStream):
    def __init__(self, net: SimNet, rec: StreamRec, layer: int = 0):
        self._net = net
        self._rec = rec
        self._layer = layer

    async def _run(self, op):
        if self._net.waiter_factory is not None:  # trio
            fut = self._net.waiter_factory()
            op.fut = fut
            try:
                return await fut.wait()
            finally:
                if op.state == "pending":
                    self._net.drop(op)
        import asyncio

        fut = asyncio.get_running_loop().create_future()
        op.fut = fut
        try:
            return await fut
        finally:
            if op.state == "pending":
                self._net.drop(op)

    async def read(self, max_bytes: int, timeout: float | None = None) -> bytes:
        op = self._net.new_op("read", self._rec.sid, max_bytes=max_bytes, timeout=timeout)
        return await self._run(op)

    async def write(self, buffer: bytes, timeout: float | None = None) -> None:
        op = self._net.new_op("write", self._rec.sid, data=bytes(buffer), timeout=timeout)
        return await self._run(op)

    async def aclose(self) -> None:
        # closing is synchronous on the ledger (the real backends close first and
        # checkpoint afterwards)
        op = self._net.new_op("close", self._rec.sid)
        self._net.resolve(op)
        # ... and the checkpoint afterwards (anyio's SocketStream.aclose: transport.close(); await sleep(0) -
        # trio's aclose_forcefully the same): a caller that is being cancelled and closes OUTSIDE a shield
        # is interrupted here, with the socket already closed and whatever follows the await not executed
        import anyio.lowlevel

        await anyio.lowlevel.checkpoint()

    async def start_tls(self, ssl_context, server_hostname=None, timeout=None):
        op = self._net.new_op(
            "start_tls", self._rec.sid, ssl_context=ssl_context, server_hostname=server_hostname, timeout=timeout,
                # (the ssl module reads the context when the handshake STARTS, not when it completes)
                alpn_at_call=list(getattr(ssl_context, "alpn", None) or [])
        )
        await self._run(op)
        return AsyncSimStream(self._net, self._rec, self._layer + 1)

    def get_extra_info(self, info: str) -> typing.Any:
        return _extra_info(self._rec, info)

    def __repr__(self):
        return f"<AsyncSimStream {self._rec.sid}>"


def _extra_info(rec, info):
    if info == "ssl_object":
        return FakeSSLObject(rec.tls[-1]["selected"]) if rec.tls else None
    if info == "is_readable":
        return rec.readable()
    if info == "server_addr":
        return (rec.host, rec.port)
    if info == "client_addr":
        return ("127.0.0.1", 50000 + rec.sid)
    if info == "sim_rec":
        return rec
    return None


class AsyncSimBackend(AsyncNetworkBackend):
    def __init__(self, net: SimNet):
        self.net = net

    async def _run(self, op):
        if self.net.waiter_factory is not None:  # trio
            fut = self.net.waiter_factory()
            op.fut = fut
            try:
                return await fut.wait()
            finally:
                if op.state == "pending":
                    self.net.drop(op)
        import asyncio

        fut = asyncio.get_running_loop().create_future()
        op.fut = fut
        try:
            return await fut
        finally:
            if op.state == "pending":
                self.net.drop(op)

    async def connect_tcp(self, host, port, timeout=None, local_address=None, socket_options=None):
        op = self.net.new_op(
            "connect_tcp",
            None,
            host=host,
            port=port,
            timeout=timeout,
            local_address=local_address,
            socket_options=socket_options,
            _owners=_owners_on_stack(),
        )
        rec = await self._connected(op)
        return AsyncSimStream(self.net, rec)

    async def _connected(self, op):
        """A connect that succeeded on the ledger but whose caller was cancelled before it could
        take the stream: the real backends (anyio, trio) close the socket they were about to
        hand over - the stream never reaches httpcore."""
        try:
            return await self._run(op)
        except BaseException:
            if op.state == "done" and op.outcome is not None and op.outcome[0] == "ok":
                self.net._close(op.outcome[1], "backend: cancelled before the stream was handed over")
            raise

    async def connect_unix_socket(self, path, timeout=None, socket_options=None):
        op = self.net.new_op(
            "connect_unix", None, path=path, timeout=timeout, socket_options=socket_options, _owners=_owners_on_stack()
        )
        rec = await self._connected(op)
        return AsyncSimStream(self.net, rec)

    async def sleep(self, seconds: float) -> None:
        op = self.net.new_op("sleep", None, seconds=seconds)
        await self._run(op)


# ---------------------------------------------------------------------------
# sync front end (single thread: ops are resolved on the spot;
# threads: `net.yield_hook` gives the scheduler a pre-emption point and blocks
# the calling thread until the op is resolvable)
# ---------------------------------------------------------------------------
class SimStream(NetworkStream):
    def __init__(self, net: SimNet, rec: StreamRec, layer: int = 0):
        self._net = net
        self._rec = rec
        self._layer = layer

    def _do(self, op):
        if self._net.yield_hook is not None:
            return self._net.yield_hook(op)
        return self._net.auto_outcome(op)

    def read(self, max_bytes: int, timeout: float | None = None) -> bytes:
        return self._do(self._net.new_op("read", self._rec.sid, max_bytes=max_bytes, timeout=timeout))

    def write(self, buffer: bytes, timeout: float | None = None) -> None:
        return self._do(self._net.new_op("write", self._rec.sid, data=bytes(buffer), timeout=timeout))

    def close(self) -> None:
        op = self._net.new_op("close", self._rec.sid)
        self._net.resolve(op)

    def start_tls(self, ssl_context, server_hostname=None, timeout=None):
        self._do(
            self._net.new_op(
                "start_tls", self._rec.sid, ssl_context=ssl_context, server_hostname=server_hostname, timeout=timeout,
                # (the ssl module reads the context when the handshake STARTS, not when it completes)
                alpn_at_call=list(getattr(ssl_context, "alpn", None) or [])
            )
        )
        return SimStream(self._net, self._rec, self._layer + 1)

    def get_extra_info(self, info: str) -> typing.Any:
        return _extra_info(self._rec, info)

    def __repr__(self):
        return f"<SimStream {self._rec.sid}>"


def ensure_sync_cannot_block():
    """Single-caller synchronous runs: a wait that nothing can end raises WouldHang (installed once per
    process, only over the REAL threading module; the controlled thread scheduler installs its own)."""
    import httpcore._synchronization as m

    if m.threading is threading:
        sync_no_block().__enter__()


class SimBackend(NetworkBackend):
    def __init__(self, net: SimNet):
        self.net = net
        ensure_sync_cannot_block()

    def _do(self, op):
        if self.net.yield_hook is not None:
            return self.net.yield_hook(op)
        return self.net.auto_outcome(op)

    def connect_tcp(self, host, port, timeout=None, local_address=None, socket_options=None):
        rec = self._do(
            self.net.new_op(
                "connect_tcp",
                None,
                host=host,
                port=port,
                timeout=timeout,
                local_address=local_address,
                socket_options=socket_options,
                _owners=_owners_on_stack(),
            )
        )
        return SimStream(self.net, rec)

    def connect_unix_socket(self, path, timeout=None, socket_options=None):
        rec = self._do(
            self.net.new_op(
                "connect_unix", None, path=path, timeout=timeout, socket_options=socket_options, _owners=_owners_on_stack()
            )
        )
        return SimStream(self.net, rec)

    def sleep(self, seconds: float) -> None:
        self._do(self.net.new_op("sleep", None, seconds=seconds))


# ---------------------------------------------------------------------------
# the world: which peer sits behind which endpoint
# ---------------------------------------------------------------------------
class World:
    """Maps an endpoint to a peer.  `rules` is a list of (predicate(rec) -> bool, factory(rec))
    tried in order; the default is an HTTP/1.1 origin server echoing request tokens."""

    def __init__(self, rules=None, default=None):
        self.rules = list(rules or [])
        self.default = default

    def peer_for(self, rec):
        for pred, fac in self.rules:
            if pred(rec):
                return fac(rec)
        if self.default is not None:
            return self.default(rec)
        from .peers import H11Peer

        return H11Peer()
