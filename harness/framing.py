"""Concretisation and execution of Framing cases (C02): a well-formed response in a chosen
framing, cut into reads at chosen offsets, optionally truncated; the real connection receives
it and the observations are judged by TLC (spec/FramingTrace.tla)."""
from __future__ import annotations

import itertools
import random

import httpcore

from . import tlc
from .peers import H11Peer, H2ServerPeer
from .simnet import FakeSSLContext, SimBackend, SimNet, World, WouldHang

HEADER_SHAPES = {
    "plain": [(b"Content-Type", b"text/plain"), (b"X-A", b"1")],
    "case": [(b"content-TYPE", b"text/plain"), (b"x-a", b"1"), (b"X-B", b"two words")],
    "dup": [(b"Set-Cookie", b"a=1"), (b"X-A", b"1"), (b"Set-Cookie", b"b=2"), (b"set-cookie", b"c=3")],
    "empty": [],
}
INTERIM = [
    (100, b"Continue", []),
    (103, b"Early Hints", [(b"Link", b"</s.css>; rel=preload"), (b"X-A", b"interim")]),
    (102, b"Processing", []),
]
REASON = {200: b"OK", 204: b"No Content", 304: b"Not Modified", 404: b"Not Found", 500: b"Oh no"}


def body_bytes(n, rng):
    return bytes(rng.randrange(1, 255) for _ in range(n))


def h11_case(ni, status, method, framing, n, chunks, hshape, version, rng):
    """-> (abstract case for TLC, wire bytes, ground truth)."""
    wire = b""
    msgs = []
    sent = {}
    for j in range(ni):
        st, reason, hs = INTERIM[j % len(INTERIM)]
        wire += b"HTTP/1.1 %d %s\r\n" % (st, reason) + b"".join(k + b": " + v + b"\r\n" for k, v in hs) + b"\r\n"
        msgs.append({"status": st, "hdr": j + 1})
        sent[j + 1] = (st, reason, b"HTTP/1.1", list(hs))
    body = body_bytes(n, rng)
    headers = list(HEADER_SHAPES[hshape])
    on_wire = method != "HEAD" and status not in (204, 304) and framing != "none"
    if framing == "cl":
        headers.append((b"Content-Length", b"%d" % n))
    elif framing == "chunked":
        headers.append((b"Transfer-Encoding", b"chunked"))
    elif framing == "none" and status not in (204, 304) and method != "HEAD":
        headers.append((b"Content-Length", b"0"))
    reason = REASON.get(status, b"Status")
    wire += version + b" %d %s\r\n" % (status, reason) + b"".join(k + b": " + v + b"\r\n" for k, v in headers) + b"\r\n"
    msgs.append({"status": status, "hdr": 9})
    sent[9] = (status, reason, version, headers)
    head_end = len(wire)
    ends = []
    if on_wire:
        if framing == "chunked":
            pos = 0
            for c in chunks:
                wire += b"%x\r\n" % c
                for _ in range(c):
                    wire += body[pos : pos + 1]
                    pos += 1
                    ends.append(len(wire))
                wire += b"\r\n"
            wire += b"0\r\n\r\n"
        else:
            for j in range(n):
                wire += body[j : j + 1]
                ends.append(len(wire))
    else:
        body = b""
    case = {
        "msgs": msgs,
        "method": method,
        "framing": framing,
        "body": list(body),
        "headEnd": head_end,
        "ends": ends,
        "eom": len(wire),
        "wire": len(wire),
        "trunc": len(wire),
    }
    return case, wire, sent


def cut_candidates(wire_len, marks):
    """Interesting cut offsets: around every structural mark (token boundary -1, 0, +1)."""
    out = set()
    for m in marks:
        for d in (-1, 0, 1, 2):
            if 0 < m + d < wire_len:
                out.add(m + d)
    return sorted(out)


class Observer:
    def __init__(self):
        self.obs = []
        self.head = False
        self.body = b""


def run_h11(case, wire, cuts, trunc, method, mode="sync"):
    ob = Observer()

    def plan(req, idx):
        return {"raw": wire[:trunc], "close": trunc < len(wire) or case["framing"] == "close"}

    def factory(rec):
        rec.cuts = sorted(cuts)
        return H11Peer(plan=plan)

    net = SimNet(World(default=factory))

    def on_op(op, phase):
        if op.kind == "read" and phase == "start":
            rec = net.streams[op.sid]
            ob.obs.append({"fed": rec.delivered, "head": ob.head, "blen": len(ob.body)})

    net.on_op = on_op
    pool = httpcore.ConnectionPool(network_backend=SimBackend(net), max_connections=1)
    out = {}
    try:
        resp = pool.handle_request(httpcore.Request(method, "http://origin.test/x", headers=[(b"Host", b"origin.test")]))
        ob.head = True
        out["status"] = resp.status
        out["headers"] = list(resp.headers)
        out["reason"] = resp.extensions.get("reason_phrase")
        out["version"] = resp.extensions.get("http_version")
        try:
            for chunk in resp.iter_stream():
                ob.body += chunk
        finally:
            resp.close()
        out["kind"] = "ok"
    except WouldHang:
        out["kind"] = "hang"
    except BaseException as e:  # noqa
        out["kind"] = "error"
        out["exc"] = type(e).__name__
        out["msg"] = str(e)[:80]
    out["body"] = ob.body
    rec = net.streams[0] if net.streams else None
    ob.obs.append({"fed": rec.delivered if rec else 0, "head": ob.head, "blen": len(ob.body)})
    return ob, out


def h2_case_and_run(ni, status, method, n, frames, hshape, cuts_fn, trunc_mode, rng, trunc_at=None, rst_code=2):
    """HTTP/2: the server's whole byte stream (SETTINGS, ACK, response frames) is one blob emitted
    when the request is complete.  Two passes: the first learns the layout (deterministic), the
    second applies cuts / truncation."""
    body = body_bytes(n, rng)
    headers = [(k.lower(), v) for k, v in HEADER_SHAPES[hshape]]
    interim = []
    for j in range(ni):
        st, _, hs = INTERIM[[1, 2, 1][j % 3]] if False else INTERIM[j % len(INTERIM)]
        if st == 100:
            st = 103
        interim.append((st, [(k.lower(), v) for k, v in hs]))
    on_wire = method != "HEAD" and status not in (204, 304) and n >= 0 and frames is not None
    spec = {"status": status, "headers": headers, "body": body if on_wire else b"", "frames": list(frames) if on_wire else [], "interim": interim}
    if trunc_mode == "rst":
        spec["rst_after"] = trunc_at
        spec["rst_code"] = rst_code
    layout = {}

    def run(cuts, trunc):
        ob = Observer()
        peers = []

        def factory(rec):
            p = H2ServerPeer(plan=lambda req: spec)
            peers.append(p)
            rec.cuts = sorted(cuts) if cuts else None
            if trunc is not None:
                orig = p.feed

                def feed(data, orig=orig, p=p):
                    out = orig(data)
                    # cut the server's byte stream at `trunc` bytes in total and close
                    start = p.sent - len(out)
                    if p.sent > trunc:
                        out = out[: max(0, trunc - start)]
                        p.closed = True
                    return out

                p.feed = feed
            return p

        net = SimNet(World(default=factory))

        def on_op(op, phase):
            if op.kind == "read" and phase == "start":
                rec = net.streams[op.sid]
                ob.obs.append({"fed": rec.delivered, "head": ob.head, "blen": len(ob.body)})

        net.on_op = on_op
        pool = httpcore.ConnectionPool(network_backend=SimBackend(net), max_connections=1, http1=False, http2=True)
        out = {}
        try:
            resp = pool.handle_request(httpcore.Request(method, "http://origin.test/x", headers=[(b"Host", b"origin.test")]))
            ob.head = True
            out["status"] = resp.status
            out["headers"] = list(resp.headers)
            out["reason"] = None
            out["version"] = resp.extensions.get("http_version")
            try:
                for chunk in resp.iter_stream():
                    ob.body += chunk
            finally:
                resp.close()
            out["kind"] = "ok"
        except WouldHang:
            out["kind"] = "hang"
        except BaseException as e:  # noqa
            out["kind"] = "error"
            out["exc"] = type(e).__name__
            out["msg"] = str(e)[:80]
        out["body"] = ob.body
        rec = net.streams[0] if net.streams else None
        ob.obs.append({"fed": rec.delivered if rec else 0, "head": ob.head, "blen": len(ob.body)})
        return ob, out, peers[0] if peers else None, net

    # pass 1: layout
    ob0, out0, peer0, net0 = run(None, None)
    lay = peer0.layout.get(1, {}) if peer0 else {}
    if not lay:
        return None
    msgs = [{"status": st, "hdr": j + 1} for j, (st, _) in enumerate(interim)] + [{"status": status, "hdr": 9}]
    ends = []
    for cnt, off in lay["data_ends"]:
        ends += [off] * cnt
    wire_len = lay["end"]
    case = {
        "msgs": msgs,
        "method": method,
        "framing": "h2" if (on_wire and (frames or trunc_mode == "rst")) else "none",
        "body": list(spec["body"][: len(ends)]) if trunc_mode == "rst" else list(spec["body"]),
        "headEnd": lay["head_end"],
        "ends": ends,
        "eom": wire_len,
        "wire": wire_len,
        "trunc": wire_len,
    }
    if trunc_mode == "rst":
        # a reset stream never completes: whatever arrived, the outcome must be an error
        case["body"] = list(spec["body"])
        case["ends"] = ends + [wire_len + 1] * (len(case["body"]) - len(ends))
        case["eom"] = wire_len + 1
        case["trunc"] = wire_len
        if not case["body"]:
            case["body"] = [0]
            case["ends"] = [wire_len + 1]
        case["framing"] = "h2"
    sent = {j + 1: (st, None, b"HTTP/2", hs) for j, (st, hs) in enumerate(interim)}
    sent[9] = (status, None, b"HTTP/2", headers)
    marks = [lay["start"]] + lay["interim_ends"] + [lay["head_end"]] + [off for _, off in lay["data_ends"]] + [o - 9 for _, o in lay["data_ends"]]
    return case, sent, marks, run, (ob0, out0)


def encode(case, cuts, ob, out, sent):
    """-> trace record for FramingTrace."""
    o = {"kind": out["kind"] if out["kind"] in ("ok", "error") else "hang"}
    if out["kind"] == "ok":
        hdr = 0
        for k, (st, reason, version, hs) in sent.items():
            if list(out["headers"]) == list(hs):
                # several messages may carry equal header lists: prefer the one with this status
                if hdr == 0 or st == out["status"]:
                    hdr = k
        o["status"] = out["status"]
        o["hdr"] = hdr
        o["body"] = list(out["body"])
        exp = [v for k, v in sent.items() if v[0] == out["status"]]
        rv_ok = any((v[1] is None or v[1] == out["reason"]) and v[2] == out["version"] for v in exp)
        o["rv"] = "ok" if rv_ok else "bad"
    return {"case": case, "obs": ob.obs, "out": o}


def trace_cfg():
    return "SPECIFICATION TSpec\nCONSTANTS\n Cases <- NoCases\n Deviations <- NoDev\nCONSTRAINT Mark\nPOSTCONDITION Post\nCHECK_DEADLOCK FALSE\n"


def validate(traces):
    res, stats = tlc.validate_traces("MCFramingTrace", trace_cfg(), traces, nd=1)
    return [r[0] for r in res], stats
