"""Shared plumbing of the checks: evidence files, known findings, replay files, verdict lines
and exit codes (0 held, 1 VIOLATION, 2 machinery failure)."""
from __future__ import annotations

import hashlib
import json
import os
import sys
import time

VERIF = os.path.dirname(os.path.dirname(os.path.abspath(__file__)))
EVIDENCE_DIR = os.path.join(VERIF, "evidence")
REPLAY_DIR = os.path.join(VERIF, "replays")
FINDINGS_FILE = os.path.join(VERIF, "KNOWN_FINDINGS.json")


def seed():
    try:
        return int(os.environ.get("VERIF_SEED", "0"))
    except ValueError:
        return 0


def jsonable(x):
    if isinstance(x, bytes):
        return x.decode("latin1")
    if isinstance(x, (set, frozenset, tuple)):
        return [jsonable(v) for v in sorted(x, key=str)] if isinstance(x, (set, frozenset)) else [jsonable(v) for v in x]
    if isinstance(x, list):
        return [jsonable(v) for v in x]
    if isinstance(x, dict):
        return {str(k): jsonable(v) for k, v in x.items()}
    if isinstance(x, float) and x == int(x):
        return int(x)
    if isinstance(x, (str, int, float, bool)) or x is None:
        return x
    return repr(x)


class Findings:
    def __init__(self):
        with open(FINDINGS_FILE) as f:
            d = json.load(f)
        self.findings = d.get("findings", [])
        self.fixed = d.get("fixed", [])

    def for_property(self, prop):
        return [f for f in self.findings if prop in f.get("properties", [])]

    @staticmethod
    def _sig_matches(sig, observed):
        """Every key of the finding's signature must be met: scalars equal; for a list, at least
        one listed value must be a prefix of (or equal to) one observed value."""
        for k, v in sig.items():
            o = observed.get(k)
            if isinstance(v, list):
                obs = o if isinstance(o, list) else [o]
                if not any(isinstance(x, str) and any(x == w or x.startswith(w + "/") for w in v) for x in obs):
                    return False
            elif o != v:
                return False
        return True

    def match(self, prop, signature):
        """-> (finding, mine): the first listed finding whose signature is met; mine tells whether
        it is listed under `prop` (otherwise it belongs to another property's check)."""
        other = None
        for f in self.findings:
            if self._sig_matches(f.get("signature", {}), signature):
                if prop in f.get("properties", []):
                    return f, True
                other = other or f
        return other, False


class Check:
    def __init__(self, prop, tier, level):
        self.prop = prop
        self.tier = tier
        self.level = level
        self.t0 = time.time()
        self.violations = []  # list of (what, replay_path)
        self.known = {}  # finding id -> (finding, count)
        self.coverage = {}
        self.assumptions = []
        self.findings = Findings()
        self.notes = []
        self.other = {}  # findings listed under other properties that cut traces short

    # -- reporting ------------------------------------------------------------
    def violation(self, what, replay):
        os.makedirs(REPLAY_DIR, exist_ok=True)
        h = hashlib.sha1(json.dumps(jsonable(replay), sort_keys=True).encode()).hexdigest()[:12]
        path = os.path.join(REPLAY_DIR, f"{self.prop}_{h}.json")
        replay = dict(replay)
        replay["property"] = self.prop
        replay["what"] = what
        with open(path, "w") as f:
            json.dump(jsonable(replay), f, indent=1)
        self.violations.append((what, path))
        return path

    def known_finding(self, finding):
        fid = finding["id"]
        f, n = self.known.get(fid, (finding, 0))
        self.known[fid] = (f, n + 1)

    def classify(self, signature, what, replay):
        """A rejected case: a listed finding of this property (KNOWN-FINDING), a listed finding
        of another property (counted, left to that property's check), or a VIOLATION."""
        f, mine = self.findings.match(self.prop, signature)
        if f is not None and mine:
            self.known_finding(f)
            return f
        if f is not None:
            self.other[f["id"]] = self.other.get(f["id"], 0) + 1
            return f
        rp = dict(replay)
        rp["signature"] = signature
        self.violation(what, rp)
        return None

    def finish(self):
        wall = time.time() - self.t0
        cov = dict(self.coverage)
        cov["known_findings_reproduced"] = {fid: n for fid, (f, n) in sorted(self.known.items())}
        cov["truncated_by_other_property"] = dict(sorted(self.other.items()))
        ev = {
            "property_id": self.prop,
            "tier": self.tier,
            "seed": seed(),
            "level": self.level,
            "coverage": jsonable(cov),
            "assumptions": self.assumptions,
            "wall_s": round(wall, 2),
            "violations": len(self.violations),
        }
        os.makedirs(EVIDENCE_DIR, exist_ok=True)
        with open(os.path.join(EVIDENCE_DIR, f"{self.prop}.json"), "w") as f:
            json.dump(ev, f, indent=1)
        for fid, (f_, n) in sorted(self.known.items()):
            print(f"KNOWN-FINDING: property={self.prop} {fid}: {f_['what']} (reproduced {n}x)")
        for what, path in self.violations[:20]:
            print(f"VIOLATION property={self.prop} replay={path}")
            print(f"  {what}")
        if len(self.violations) > 20:
            print(f"  ... and {len(self.violations) - 20} more violations")
        for n in self.notes:
            print("note:", n)
        print(
            f"{self.prop} [{self.tier}] {'VIOLATED' if self.violations else 'held'}: "
            + ", ".join(f"{k}={v}" for k, v in cov.items() if isinstance(v, (int, float, bool)))
            + f" wall={wall:.1f}s"
        )
        return 1 if self.violations else 0


def machinery_failure(msg):
    print("MACHINERY FAILURE (not a verdict about httpcore):", msg, file=sys.stderr)
    sys.exit(2)
