"""Running TLC: model checking with a generated configuration, and batch trace validation
(sharded over the cores; one verdict line per trace)."""
from __future__ import annotations

import json
import os
import re
import shutil
import subprocess
import tempfile
import time
from concurrent.futures import ThreadPoolExecutor

from . import tlcout

VERIF = os.path.dirname(os.path.dirname(os.path.abspath(__file__)))
SPEC = os.path.join(VERIF, "spec")
WORK = os.path.join(VERIF, ".work")
NCPU = os.cpu_count() or 4


class MachineryError(Exception):
    """TLC / SANY / harness failure: exit 2, never a VIOLATION."""


def workdir(tag="w"):
    os.makedirs(WORK, exist_ok=True)
    return tempfile.mkdtemp(prefix=f"{tag}_{os.getpid()}_", dir=WORK)


CP = "/opt/veriftools/tla/tla2tools.jar:/opt/veriftools/tla/CommunityModules-deps.jar"


def java_tlc(heap="2g", gc="Serial", props=()):
    """The JVM command for TLC with an explicit heap (the `tlc` wrapper takes a quarter of the
    machine per process, which does not survive 16 parallel shards)."""
    return ["java", f"-Xmx{heap}", f"-XX:+Use{gc}GC", "-XX:TieredStopAtLevel=4"] + [f"-D{p}" for p in props] + ["-cp", CP, "tlc2.TLC"]


def _run(cmd, cwd, env=None, timeout=3600):
    e = dict(os.environ)
    e.update(env or {})
    try:
        p = subprocess.run(cmd, cwd=cwd, env=e, capture_output=True, text=True, timeout=timeout)
    except subprocess.TimeoutExpired as ex:
        raise MachineryError(f"timeout after {timeout}s: {' '.join(cmd)}") from ex
    return p.returncode, p.stdout + p.stderr


def sany(module):
    rc, out = _run(["tla-sany", module], cwd=SPEC, timeout=300)
    if rc != 0 or "Semantic errors" in out or "Parse Error" in out or "Cannot find" in out or "Fatal" in out:
        raise MachineryError("SANY failed on " + module + "\n" + out[-3000:])
    return True


def model_check(module, cfg_text, workers=NCPU, timeout=3600, extra=(), coverage=False, tag="mc", env=None):
    """Run TLC on spec/<module>.tla with the given cfg text. Returns the parsed result
    (tlcout.parse) plus `raw` and `wall_s`."""
    wd = workdir(tag)
    try:
        cfg = os.path.join(wd, "model.cfg")
        with open(cfg, "w") as f:
            f.write(cfg_text)
        cmd = java_tlc(heap="24g", gc="Parallel") + ["-workers", str(workers), "-metadir", os.path.join(wd, "meta"), "-noGenerateSpecTE", "-config", cfg]
        if coverage:
            cmd += ["-coverage", "1"]
        cmd += list(extra) + [module + ".tla"]
        t0 = time.time()
        rc, out = _run(cmd, cwd=SPEC, timeout=timeout, env=env)
        res = tlcout.parse(out)
        res["raw"] = out
        res["rc"] = rc
        res["wall_s"] = time.time() - t0
        if res["states"] is None and not res["errors"]:
            raise MachineryError("TLC produced no result:\n" + out[-3000:])
        return res
    finally:
        shutil.rmtree(wd, ignore_errors=True)


def simulate(module, cfg_text, seconds, depth=80, workers=NCPU, tag="sim", seed=0):
    """Random behaviours of an instance too large to exhaust (tlc -simulate) for `seconds`.
    Returns {"ok", "errors", "behaviour", "traces", "states", "wall_s"}; TLC stops by itself only
    when it finds a violation."""
    wd = workdir(tag)
    try:
        cfg = os.path.join(wd, "model.cfg")
        with open(cfg, "w") as f:
            f.write(cfg_text)
        cmd = java_tlc(heap="8g", gc="Parallel") + ["-simulate", "num=2000000000", "-depth", str(depth), "-seed", str(seed), "-workers", str(workers), "-metadir", os.path.join(wd, "meta"), "-noGenerateSpecTE", "-config", cfg, module + ".tla"]
        t0 = time.time()
        p = subprocess.Popen(cmd, cwd=SPEC, stdout=subprocess.PIPE, stderr=subprocess.STDOUT, text=True)
        try:
            out, _ = p.communicate(timeout=seconds)
            finished = True
        except subprocess.TimeoutExpired:
            p.kill()
            out, _ = p.communicate()
            finished = False
        res = tlcout.parse(out)
        res["raw"] = out
        res["wall_s"] = time.time() - t0
        m = re.findall(r"Progress: (\d+) states checked, (\d+) traces generated", out)
        res["sim_states"], res["sim_traces"] = (int(m[-1][0]), int(m[-1][1])) if m else (0, 0)
        if finished and not res["errors"] and "Error" not in out:
            raise MachineryError("tlc -simulate ended by itself without a verdict:\n" + out[-2000:])
        if not finished:
            if "Error:" in out:
                raise MachineryError("tlc -simulate reported an error:\n" + out[-2000:])
            res["ok"] = True
            res["errors"] = []
        return res
    finally:
        shutil.rmtree(wd, ignore_errors=True)


_VERDICT = re.compile(r'<<"TRACE", (\d+), (\d+), "(ACCEPT|REJECT)", (\d+)>>')


def _validate_shard(args):
    module, cfg_text, traces, idx, timeout, keep, nd = args
    wd = workdir("tv")
    try:
        tf = os.path.join(wd, "traces.json")
        with open(tf, "w") as f:
            json.dump(traces, f, separators=(",", ":"))
        cfg = os.path.join(wd, "trace.cfg")
        with open(cfg, "w") as f:
            f.write(cfg_text)
        cmd = java_tlc(heap="2g") + ["-workers", "1", "-metadir", os.path.join(wd, "meta"), "-noGenerateSpecTE", "-config", cfg, module + ".tla"]
        t0 = time.time()
        rc, out = _run(cmd, cwd=SPEC, env={"TRACE_FILE": tf}, timeout=timeout)
        verdicts = {}
        for m in _VERDICT.finditer(out):
            verdicts.setdefault(int(m.group(1)), {})[int(m.group(2))] = (m.group(3), int(m.group(4)))
        summ = tlcout.parse(out)
        verdicts = {i: [v[d] for d in sorted(v)] for i, v in verdicts.items()}
        if len(verdicts) != len(traces) or any(len(v) != nd for v in verdicts.values()):
            raise MachineryError(
                f"trace validation shard {idx}: {len(verdicts)} verdicts for {len(traces)} traces\n" + out[-4000:]
            )
        return idx, verdicts, summ.get("distinct") or 0, summ.get("states") or 0, time.time() - t0
    finally:
        if not keep:
            shutil.rmtree(wd, ignore_errors=True)


def validate_traces(module, cfg_text, traces, shards=None, timeout=1800, keep=False, nd=1):
    """Validate a list of trace records with spec/<module>.tla.  Returns, in input order, one
    list per trace with `nd` (verdict, matched_prefix_len) pairs (one per configuration the
    trace specification tries), and stats."""
    if not traces:
        return [], {"states": 0, "distinct": 0, "wall_s": 0.0, "shards": 0}
    n = len(traces)
    shards = shards or max(1, min(max(2, NCPU // 2), (n * nd + 19) // 20))
    parts = [[] for _ in range(shards)]
    where = []
    for i, t in enumerate(traces):
        s = i % shards
        where.append((s, len(parts[s]) + 1))
        parts[s].append(t)
    jobs = [(module, cfg_text, p, i, timeout, keep, nd) for i, p in enumerate(parts) if p]
    t0 = time.time()
    results = {}
    stats = {"states": 0, "distinct": 0}
    with ThreadPoolExecutor(max_workers=min(NCPU, len(jobs))) as ex:
        for idx, verdicts, distinct, states, wall in ex.map(_validate_shard, jobs):
            results[idx] = verdicts
            stats["states"] += states
            stats["distinct"] += distinct
    stats["wall_s"] = time.time() - t0
    stats["shards"] = len(jobs)
    out = []
    for s, j in where:
        out.append(results[s][j])
    return out, stats
