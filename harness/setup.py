"""MANIFEST.setup_cmd: nothing is fetched or installed; parse every specification module
with SANY and make sure the scratch directory exists."""
import glob
import os
import sys

from . import tlc


def main():
    os.makedirs(tlc.WORK, exist_ok=True)
    os.makedirs(os.path.join(tlc.VERIF, "evidence"), exist_ok=True)
    os.makedirs(os.path.join(tlc.VERIF, "replays"), exist_ok=True)
    bad = 0
    for f in sorted(glob.glob(os.path.join(tlc.SPEC, "MC*.tla"))):
        try:
            tlc.sany(os.path.basename(f))
            print("ok  ", os.path.basename(f))
        except tlc.MachineryError as e:
            print("FAIL", os.path.basename(f), str(e)[-500:])
            bad += 1
    import httpcore

    print("httpcore from", httpcore.__file__)
    sys.exit(1 if bad else 0)


if __name__ == "__main__":
    main()
