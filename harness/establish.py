"""Conformance harness for spec/Establish.tla: one request through a pool (sync or async
twin) on the simulated network, with a scripted outcome for every fallible operation; the
recorded operations are abstracted to the specification's alphabet and replayed by TLC."""
from __future__ import annotations

import itertools

import httpcore

from . import tlc
from .driver import AsyncRun, Call, default_decide
from .peers import H11Peer, SocksPeer, TunnelPeer, default_plan
from .simnet import FakeSSLContext, SimBackend, SimNet, World, WouldHang

ORIGIN_HOST = "origin.test"
ORIGIN_V6 = "2001:db8::5"
EXT_TARGET = b"/ext%2Ftarget;p=1?z=9"
# concretisation variants of a case (the abstract case - what the specification sees - is the same, which is
# the point: none of them changes what a hop is owed): a connect timeout shorter than the back-off pauses, the
# caller's 'target' extension, an origin given as an IPv6 literal
VARIANT_KEYS = ("tight", "tgtExt", "v6", "upperScheme")


def origin_host(case):
    """The origin's host as the network sees it (connect_tcp, SNI, SOCKS address)."""
    return ORIGIN_V6 if case.get("v6") else ORIGIN_HOST


def origin_authority(case):
    """... and as it is written in a URL, a Host header or a CONNECT target."""
    return "[" + ORIGIN_V6 + "]" if case.get("v6") else ORIGIN_HOST
PROXY_HOST = "proxy.test"
SNI_HOST = "sni.test"
TMO = {"connect": 3, "read": 5, "write": 7, "pool": 11}
TMO_NAME = {3: "connect", 5: "read", 7: "write", 11: "pool", None: "none", 0.25: "connect"}
# "tight" variant of a case: a connect timeout SHORTER than the back-off pauses (0.5 s, 1 s, ...), so that the
# two cannot be confused with each other (the abstract case is the same: tmo = TRUE)
TMO_TIGHT = dict(TMO, connect=0.25)


class H2StubPeer:
    """A peer that only records what it is sent (enough to see the HTTP/2 preface)."""

    def __init__(self):
        self.raw_in = b""
        self.closed = False

    def on_tls(self, sni, offer):
        return "h2" if "h2" in offer else None

    def feed(self, data):
        self.raw_in += data
        return b""


class AutoPeer(H11Peer):
    """HTTP/1.1 origin that falls silent (recording only) when it is spoken HTTP/2 to."""

    def feed(self, data):
        if not self.raw_in and data.startswith(b"PRI * HTTP/2.0"):
            self.h2 = True
        if getattr(self, "h2", False):
            self.raw_in += data
            return b""
        return super().feed(data)


def make_world(case, refuse):
    def origin_peer():
        p = AutoPeer(alpn="h2" if case["alpnH2"] else "http/1.1")
        return p

    def inner(host, port):
        return origin_peer()

    def peer_for(rec):
        if case["proxy"] == "none":
            return origin_peer()
        if case["proxy"] == "socks5":
            kw = {}
            if refuse == "socks-greet":
                kw["method"] = 0xFF
            if refuse == "socks-greet:unoffered":
                kw["method"] = "unoffered"
            if refuse == "socks-auth":
                kw["auth_ok"] = False
            if refuse == "socks-connect":
                kw["reply"] = 5
            return SocksPeer(inner_factory=inner, **kw)
        cp = None
        if refuse and refuse.startswith("connect"):
            # "connect" = 403; "connect:<status>" = any other non-2xx reply (3xx redirects of captive
            # portals, 407, 5xx ...): every one of them is a refusal
            status = int(refuse.split(":")[1]) if ":" in refuse else 403
            hdrs = [(b"Location", b"http://portal.test/login")] if 300 <= status < 400 else []
            cp = lambda req: {"status": status, "reason": b"Refused", "headers": hdrs, "framing": "cl", "body": b""}
        return TunnelPeer(inner_factory=inner, connect_plan=cp, alpn="http/1.1")

    return World(default=peer_for)


def pool_kwargs(case):
    kw = dict(
        http1=case["http1"],
        http2=case["http2"],
        retries=case["retries"],
        max_connections=2,
        ssl_context=FakeSSLContext("origin"),
    )
    if case["uds"]:
        kw["uds"] = "/tmp/sock"
    if case["proxy"] != "none":
        scheme = {"http": "http", "https": "https", "socks5": "socks5"}[case["proxy"]]
        port = {"http": 8080, "https": 8443, "socks5": 1080}[case["proxy"]]
        pkw = {}
        if case["auth"]:
            pkw["auth"] = (b"user", b"secret")
        if scheme == "https":
            pkw["ssl_context"] = FakeSSLContext("proxy")
        if case.get("phdr") == "distinct":
            pkw["headers"] = [(b"X-Px", b"pxmark")]
        elif case.get("phdr") == "collide":
            pkw["headers"] = [(b"X-Shared", b"pxmark"), (b"ACCEPT", b"text/pxaccept")]
        kw["proxy"] = httpcore.Proxy(f"{scheme}://{PROXY_HOST}:{port}", **pkw)
    return kw


def request_args(case):
    ext = {}
    if case["tmo"]:
        ext["timeout"] = dict(TMO_TIGHT if case.get("tight") else TMO)
    if case["sniExt"]:
        ext["sni_hostname"] = SNI_HOST
    if case.get("tgtExt"):
        ext["target"] = EXT_TARGET
    url = f"{case['scheme']}://{origin_authority(case)}/x"
    if case.get("upperScheme"):
        # the URL given as explicit components with the scheme in upper case ("HTTPS"): nothing normalises it.
        # Refusing it (UnsupportedProtocol) is fine; accepting it means treating it as that scheme - TLS included
        url = httpcore.URL(scheme=case["scheme"].upper().encode(), host=origin_host(case).encode(), port=None, target=b"/x")
    return url, ext


MARKERS = {"callerBody": b"bodymark", "callerHeader": b"callermark", "proxyAuth": b"dXNlcjpzZWNyZXQ=", "proxyHeader": b"pxmark", "caller2Header": b"second2mark"}


def caller_headers(case):
    h = [(b"Host", origin_authority(case).encode()), (b"X-Caller", b"callermark")]
    if case.get("phdr") == "collide":
        h.append((b"x-shared", b"callermark2"))
    if case.get("body"):
        h.append((b"Content-Length", b"8"))
    return h


def caller_body(case):
    return b"bodymark" if case.get("body") else None


def carries(data):
    if data.startswith(b"PRI * HTTP/2.0"):
        from .peers import H2Decoder

        d = H2Decoder()
        d.feed(data)
        data = d.flat()
    return [m for m in ("callerBody", "callerHeader", "proxyAuth", "proxyHeader", "caller2Header") if MARKERS[m] in data]


FALLIBLE = ("connect_tcp", "connect_unix", "start_tls", "read", "write")


class Script:
    """Outcome script: the k-th fallible operation issued gets script[k] (default ok)."""

    def __init__(self, outcomes):
        self.outcomes = [o for o in outcomes if not (isinstance(o, str) and o.startswith("post:"))]
        post = [o for o in outcomes if isinstance(o, str) and o.startswith("post:")]
        self.post = post[0][5:] if post else None  # fault for the first read after the request was written
        self.connect_only = "@connect" in outcomes  # the script addresses connect-stage operations only
        self.outcomes = [o for o in self.outcomes if o != "@connect"]
        self.k = 0
        self.req_written = False

    def next_for(self, op):
        if op.kind not in FALLIBLE:
            return None
        if op.kind == "write" and not op.args.get("data"):
            return None
        if op.kind == "write" and self.k >= len(self.outcomes) and op.args.get("data", b"")[:4] in (b"GET ", b"POST", b"PRI "):
            self.req_written = True
        if self.post and self.req_written and op.kind == "read":
            f, self.post = self.post, None
            return f
        if self.connect_only and op.kind in ("read", "write"):
            return None
        k = self.k
        self.k += 1
        if k < len(self.outcomes) and self.outcomes[k] not in ("ok", "refused"):
            return self.outcomes[k]
        return None


# "OtherError" of the specification = any exception that is NOT a connect error / connect timeout.  The
# concrete class is chosen by the script ("OtherError:<class>"): an httpcore class of another family, and
# OSError subclasses / other builtins as a third-party backend may let through (never retriable either).
OTHER_CLASSES = ["ReadTimeout", "PermissionError", "ConnectionResetError", "TimeoutError", "RuntimeError"]


class _Exc(dict):
    def __missing__(self, k):
        if k.startswith("OtherError:"):
            return k.split(":", 1)[1]
        raise KeyError(k)


EXC = _Exc({"ReadError": "ReadError", "ConnectError": "ConnectError", "ConnectTimeout": "ConnectTimeout", "OtherError": "ReadTimeout", "WriteError": "WriteError"})


def norm_other(name):
    return "OtherError" if name in OTHER_CLASSES else name


def run_sync(case, outcomes, refuse):
    net = SimNet(make_world(case, refuse))
    script = Script(outcomes)
    orig_new = net.new_op

    def new_op(kind, sid, **args):
        op = orig_new(kind, sid, **args)
        class _O: pass
        f = script.next_for(op)
        if f is not None:
            net.fault_plan[op.seq] = EXC[f]
        return op

    net.new_op = new_op
    kw = pool_kwargs(case)
    kw["network_backend"] = SimBackend(net)
    pool = httpcore.ConnectionPool(**kw)
    url, ext = request_args(case)
    result = {}
    try:
        req = httpcore.Request("POST" if case.get("body") else "GET", url, headers=caller_headers(case), content=caller_body(case), extensions=ext)
        resp = pool.handle_request(req)
        try:
            resp.read()
        finally:
            resp.close()
        result["result"] = "ok"
        result["status"] = resp.status
        if case.get("second"):
            # a SECOND request by another caller on the same pool (the connection is kept alive): other
            # headers, no body - what it carries is judged by Establish.SecondOK
            mark = len(net.ops)
            result["ops_mark"] = mark
            try:
                r2 = pool.handle_request(httpcore.Request("GET", url.replace("/x", "/y"), headers=[(b"Host", origin_authority(case).encode()), (b"X-Caller2", b"second2mark")], extensions=ext))
                try:
                    r2.read()
                finally:
                    r2.close()
                data2 = b"".join(op.args.get("data", b"") for op in net.ops[mark:] if op.kind == "write")
                line = data2.split(b"\r\n")[0]
                result["second"] = {
                    "carries": carries(data2),
                    "form": request_form(case, data2),
                    "dup": has_dup(data2),
                    "connects": sum(1 for op in net.ops[mark:] if op.kind in ("connect_tcp", "connect_unix")),
                    "res": "ok",
                }
            except BaseException as e2:  # noqa
                result["second"] = {"carries": [], "form": "", "dup": False, "connects": 0, "res": type(e2).__name__}
    except WouldHang:
        result["result"] = "ok"  # the request was written; a stub peer does not answer
        result["hang"] = True
    except BaseException as e:  # noqa
        result["result"] = type(e).__name__
        result["msg"] = str(e)[:100]
    result["conns"] = [c.info() for c in pool.connections]
    return net, result, pool


def run_async(case, outcomes, refuse):
    url, ext = request_args(case)
    tmo = ext.pop("timeout", None)
    call = Call("r1", url, method="POST" if case.get("body") else "GET", headers=caller_headers(case)[1:], content=caller_body(case), timeout=tmo, extensions=ext)
    kw = pool_kwargs(case)
    run = AsyncRun(kw, [call], world=make_world(case, refuse), record=False)
    run.ctx = kw["ssl_context"]
    script = Script(outcomes)
    planned = {}
    orig_new = run.net.new_op

    def new_op(kind, sid, **args):
        op = orig_new(kind, sid, **args)
        f = script.next_for(op)
        if f is not None:
            planned[op.seq] = EXC[f]
        return op

    run.net.new_op = new_op

    def decide(r, en):
        st = default_decide(r, en)
        if st is not None and st[0] == "op" and st[1] in planned:
            return ("op", st[1], planned[st[1]])
        return st

    run.run(decide)
    out = run.outcome.get("r1", {})
    result = {}
    if out.get("result") == "ok":
        result["result"] = "ok"
    elif out.get("result") == "exc":
        result["result"] = out.get("exc")
    else:
        result["result"] = "ok" if run.live() else str(out.get("result"))
        result["hang"] = bool(run.live())
    net = run.net
    result["conns"] = [c.info() for c in run.pool.connections]
    run.finish()
    return net, result, None


def abstract(case, net, result):
    """Recorded operations -> the alphabet of Establish.tla (exactly its record fields)."""
    ops = []
    requested = False
    req_sid = None
    req_bytes = b""
    stage = {}  # sid -> stage of the proxy negotiation
    for op in net.ops[: result.get("ops_mark")]:
        if requested and op.state == "done" and op.outcome and op.outcome[0] == "exc" and op.kind in ("read", "write"):
            ops.append({"op": "post", "res": type(op.outcome[1]).__name__})
            break
        if requested:
            # everything else written for the request on that stream counts towards what it carries
            if op.kind == "write" and op.state == "done" and op.sid == req_sid and op.outcome and op.outcome[0] == "ok":
                req_bytes += op.args.get("data", b"")
                ops[-1]["carries"] = carries(req_bytes)
            continue
        if op.state not in ("done",):
            continue
        res = "ok" if op.outcome and op.outcome[0] == "ok" else norm_other(type(op.outcome[1]).__name__)
        a = op.args
        tmo = TMO_NAME.get(a.get("timeout"), "weird:%r" % (a.get("timeout"),))
        if op.kind == "connect_tcp":
            to = "proxy" if a["host"] == PROXY_HOST else ("origin" if a["host"] == origin_host(case) else "other:" + str(a["host"]))
            ops.append({"op": "tcp", "to": to, "tmo": tmo, "res": res})
        elif op.kind == "connect_unix":
            ops.append({"op": "uds", "tmo": tmo, "res": res})
        elif op.kind == "start_tls":
            sni = a.get("server_hostname")
            sni = {origin_host(case): "origin", PROXY_HOST: "proxy", SNI_HOST: "ext"}.get(sni, "other:" + str(sni))
            offer = list(a["alpn_at_call"]) if "alpn_at_call" in a else list(getattr(a.get("ssl_context"), "alpn", None) or [])
            alpn = "h1h2" if offer == ["http/1.1", "h2"] else ("h1" if offer == ["http/1.1"] else "other:" + ",".join(offer))
            rec = net.streams[op.sid]
            # which hop does this handshake secure?  the proxy hop iff nothing was tunnelled yet
            hop = tls_hop(case, rec, stage)
            ops.append({"op": "tls", "hop": hop, "sni": sni, "alpn": alpn, "tmo": tmo, "res": res})
        elif op.kind == "sleep":
            d = a["seconds"] * 2
            ops.append({"op": "sleep", "d": int(d) if d == int(d) else -1, "res": "ok"})
        elif op.kind in ("write", "read"):
            rec = net.streams[op.sid]
            data = a.get("data", b"") if op.kind == "write" else b""
            if op.kind == "write" and not data:
                continue  # h11 emits b"" for EndOfMessage; the real backends skip empty writes
            what = classify(case, rec, op, data, stage)
            if what == "request":
                form = request_form(case, data)
                proto = "h2" if data.startswith(b"PRI * HTTP/2.0") else "h1"
                via = "proxy" if rec.host == PROXY_HOST else "origin"
                ops.append({"op": "request", "proto": proto, "form": form, "via": via, "carries": carries(data), "dup": has_dup(data) if proto == "h1" else False, "tmo": tmo, "res": res})
                requested = True
                req_sid = rec.sid
                req_bytes = data
            elif what is None:
                continue
            else:
                rec_ = {"op": op.kind, "what": what, "tmo": tmo, "res": res}
                if op.kind == "write":
                    rec_.update(write_details(case, what, data))
                # consecutive operations of the same class collapse into one
                if ops and ops[-1]["op"] == rec_["op"] and ops[-1].get("what") == what and ops[-1]["res"] == "ok":
                    if op.kind == "write" and "carries" in ops[-1]:
                        got = set(ops[-1]["carries"]) | set(rec_.get("carries", []))
                        rec_ = dict(ops[-1], res=rec_["res"], carries=[m for m in ("callerBody", "callerHeader", "proxyAuth", "proxyHeader") if m in got])
                    elif op.kind == "write":
                        rec_ = dict(ops[-1], res=rec_["res"])
                    ops[-1] = rec_
                else:
                    ops.append(rec_)
    return ops


def classify(case, rec, op, data, stage):
    """Class of a read / write, from the scan state only (never from the peers' final state)."""
    sid = rec.sid
    st = stage.get(sid, "pre")
    if case["proxy"] in ("http", "https") and rec.host == PROXY_HOST:
        if op.kind == "write":
            if st == "pre" and data.startswith(b"CONNECT "):
                stage[sid] = "connect-sent"
                return "connect-req"
            if st == "connect-sent":
                return "connect-req"
            if st == "connect-read":
                stage[sid] = "tunnelled"
            return "request"
        if st in ("connect-sent", "connect-read"):
            stage[sid] = "connect-read"
            return "connect-resp"
        return None
    if case["proxy"] == "socks5" and rec.host == PROXY_HOST:
        order = ["socks-greet"] + (["socks-auth"] if case["auth"] else []) + ["socks-connect"]
        n = stage.get((sid, "n"), 0)
        if op.kind == "write":
            if n < len(order):
                return order[n]
            return "request"
        if n < len(order):
            stage[(sid, "n")] = n + 1
            if n + 1 == len(order):
                stage[sid] = "tunnelled"
            return order[n]
        return None
    if op.kind == "write":
        return "request"
    return None


def has_dup(data):
    """Does an HTTP/1.1 head repeat a header name (case-insensitively)?"""
    head = data.split(b"\r\n\r\n")[0]
    names = [ln.split(b":", 1)[0].strip().lower() for ln in head.split(b"\r\n")[1:] if b":" in ln]
    return len(names) != len(set(names))


def write_details(case, what, data):
    """Content-level facts about a negotiation message, read with independent code."""
    port = {"http": 80, "https": 443, "ws": 80, "wss": 443}[case["scheme"]]
    if what == "connect-req":
        line = data.split(b"\r\n")[0]
        target = line.split(b" ")[1] if len(line.split(b" ")) == 3 else b""
        hosts = [ln.split(b":", 1)[1].strip() for ln in data.split(b"\r\n")[1:] if ln.lower().startswith(b"host:")]
        want = b"%s:%d" % (origin_authority(case).encode(), port)
        ok = target == want and hosts == [want]
        return {"names": "origin" if ok else "other:" + target.decode("latin1"), "carries": carries(data), "dup": has_dup(data)}
    if what == "socks-greet":
        methods = list(data[2 : 2 + data[1]]) if len(data) >= 2 and data[0] == 5 else None
        m = {(0,): "noauth", (2,): "userpass"}.get(tuple(methods or ()), "other:%r" % (methods,))
        return {"method": m}
    if what == "socks-connect":
        ok = False
        if len(data) >= 7 and data[:3] == b"\x05\x01\x00" and data[3] == 3:
            n = data[4]
            host = data[5 : 5 + n]
            p = int.from_bytes(data[5 + n : 7 + n], "big")
            ok = host == origin_host(case).encode() and p == port
        return {"names": "origin" if ok else "other"}
    return {}


def request_form(case, data):
    """'absolute' / 'origin' only if the request line carries EXACTLY the absolute URL (scheme://authority +
    target) resp. exactly the target - the caller's 'target' extension when given, else the URL's path."""
    if data.startswith(b"PRI * HTTP/2.0"):
        return "origin"
    parts = data.split(b"\r\n")[0].split(b" ")
    tgt = parts[1] if len(parts) == 3 else b"?"
    path = EXT_TARGET if case.get("tgtExt") else b"/x"
    if tgt in (path, path.replace(b"/x", b"/y")):
        return "origin"
    port = {"http": 80, "https": 443, "ws": 80, "wss": 443}[case["scheme"]]
    auth = origin_authority(case).encode()
    for a in (auth, auth + b":%d" % port):
        if tgt in (case["scheme"].encode() + b"://" + a + path, case["scheme"].encode() + b"://" + a + path.replace(b"/x", b"/y")):
            return "absolute"
    return "other:" + tgt.decode("latin1")[:80]


def tls_hop(case, rec, stage):
    if case["proxy"] == "none":
        return "origin"
    st = stage.get(rec.sid, "pre")
    if st == "pre" and stage.get((rec.sid, "n"), 0) == 0:
        return "proxy"
    if st == "connect-read":
        stage[rec.sid] = "tunnelled"
    return "origin"


def refusals(case, ops_result):
    """Mark the read that carried a refusal: the peer answered, httpcore raised ProxyError."""
    return ops_result


def record(case, outcomes, refuse, mode):
    net, result, _ = (run_sync if mode == "sync" else run_async)(case, outcomes, refuse)
    ops = abstract(case, net, result)
    res = result["result"]
    if refuse:
        # the read that DELIVERED the refusing reply is marked by what the peer did, never by how the
        # client reacted: a client that carries on after a refusal must not look like a success
        want = "connect-resp" if refuse.startswith("connect") else refuse.split(":")[0]
        for o in ops:
            if o["op"] == "read" and o.get("what") == want and o["res"] == "ok":
                o["res"] = "refused"
                break
    res = norm_other(res)
    open_after = any(r.open for r in net.streams) if res != "ok" else False
    extra = {"second": result["second"]} if "second" in result else {}
    return {
        **extra,
        "case": {k: v for k, v in case.items() if k not in VARIANT_KEYS},
        "ops": ops,
        "result": res,
        "open_after": open_after,
        "meta": {"mode": mode, "outcomes": list(outcomes), "refuse": refuse or "", "conns": result.get("conns", []), "msg": result.get("msg", "")},
    }


def trace_cfg(dev="NoDev", groups="GAll"):
    return f"""SPECIFICATION TSpec
CONSTANTS
  Cases <- NoCases
  Deviations <- {dev}
  PropGroups <- {groups}
CONSTRAINT Mark
POSTCONDITION Post
CHECK_DEADLOCK FALSE
"""


def validate(traces, dev="NoDev", groups="GAll"):
    body = [dict({"case": t["case"], "ops": t["ops"], "result": t["result"], "open_after": t["open_after"]}, **({"second": t["second"]} if "second" in t else {})) for t in traces]
    res, stats = tlc.validate_traces("MCEstablishTrace", trace_cfg(dev, groups), body, nd=1)
    return [r[0] for r in res], stats


DEVIATIONS = {
    "DSocksTmo": "SocksNoTimeout",
    "DTunnelTls": "TunnelAlwaysTls",
    "DSocksTls": "SocksTlsHttpsOnly",
    "DTunnelSni": "TunnelIgnoresSniExt",
    "DSocksLeak": "SocksFailureLeaksStream",
}


def diagnose(traces):
    """Which named deviation(s) of Establish explain a rejected log?  singles, then all."""
    from concurrent.futures import ThreadPoolExecutor

    if not traces:
        return []
    keys = list(DEVIATIONS) + ["CodeDevs"]
    with ThreadPoolExecutor(max_workers=6) as ex:
        results = dict(zip(keys, ex.map(lambda k: validate(traces, dev=k, groups="GNone")[0], keys)))
    out = []
    for i in range(len(traces)):
        ok = sorted(DEVIATIONS[k] for k in DEVIATIONS if results[k][i][0] == "ACCEPT")
        allv = results["CodeDevs"][i]
        if ok:
            out.append((ok, allv[0], allv[1], "single"))
        elif allv[0] == "ACCEPT":
            out.append((None, allv[0], allv[1], "set"))
        else:
            out.append(([], allv[0], allv[1], "unexplained"))
    need = [i for i, o in enumerate(out) if o[3] == "set"]
    if need:
        sub = [traces[i] for i in need]
        with ThreadPoolExecutor(max_workers=6) as ex:
            r2 = dict(zip(DEVIATIONS, ex.map(lambda k: validate(sub, dev="No" + k, groups="GNone")[0], list(DEVIATIONS))))
        for j, i in enumerate(need):
            necessary = sorted(DEVIATIONS[k] for k in DEVIATIONS if r2[k][j][0] != "ACCEPT")
            out[i] = (necessary, out[i][1], out[i][2], "set")
    return out


def all_cases(filter_fn=None):
    out = []
    for scheme, proxy, auth, http1, http2, alpnH2, sniExt, uds, retries, tmo, phdr, body in itertools.product(
        ["http", "https", "ws", "wss"], ["none", "http", "https", "socks5"], [False, True], [False, True], [False, True], [False, True], [False, True], [False, True], range(5), [False, True],
        ["none", "distinct", "collide"], [False, True]
    ):
        c = dict(scheme=scheme, proxy=proxy, auth=auth, http1=http1, http2=http2, alpnH2=alpnH2, sniExt=sniExt, uds=uds, retries=retries, tmo=tmo, phdr=phdr, body=body)
        if phdr != "none" and proxy not in ("http", "https"):
            continue
        if not (http1 or http2):
            continue
        if uds and proxy != "none":
            continue
        if auth and proxy == "none":
            continue
        if retries > 0 and proxy != "none":
            continue
        if filter_fn and not filter_fn(c):
            continue
        out.append(c)
    return out
