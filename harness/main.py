"""Entry point: ./check <property> --tier quick|thorough | --replay <file>"""
from __future__ import annotations

import argparse
import os
import sys
import traceback


def main():
    ap = argparse.ArgumentParser()
    ap.add_argument("prop")
    ap.add_argument("--tier", default=os.environ.get("VERIF_TIER", "quick"), choices=["quick", "thorough"])
    ap.add_argument("--replay", default=None)
    a = ap.parse_args()
    from . import tlc
    from .checklib import machinery_failure

    try:
        from .registry import REGISTRY

        if a.prop not in REGISTRY:
            machinery_failure(f"no check registered for {a.prop}")
        mod = REGISTRY[a.prop]
        if a.replay:
            from . import replay

            rc = replay.replay(a.prop, a.replay)
        else:
            rc = mod.run(a.prop, a.tier)
        sys.exit(rc)
    except tlc.MachineryError as e:
        machinery_failure(str(e))
    except SystemExit:
        raise
    except BaseException:
        machinery_failure(traceback.format_exc())


if __name__ == "__main__":
    main()
