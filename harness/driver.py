"""Deterministic driver for the real AsyncConnectionPool on the virtual loop + simulated
network, with a recorder that projects the state through PUBLIC surfaces only:
pool.connections / info() / is_*() / can_handle_request() / repr(pool), the simulated
network ledger, and the callers' own outcomes."""
from __future__ import annotations

import asyncio
import re
import traceback

import anyio
import httpcore

from .urls import ind_origin, make_origin

from .simnet import AsyncSimBackend, FakeSSLContext, SimNet, World
from .vloop import VLoop, patch_httpcore_clock


def mk_url(url):
    """A call's URL is text, or a dict of COMPONENTS (scheme/host/port/target, host as bytes or as a list of
    byte values) handed to httpcore.URL(**components): the only way to name a host that is not ASCII."""
    if isinstance(url, dict):
        d = dict(url)
        for k in ("scheme", "host", "target"):
            if isinstance(d.get(k), (list, tuple)):
                d[k] = bytes(d[k])
            elif isinstance(d.get(k), str):
                d[k] = d[k].encode("latin1")
        return httpcore.URL(**d)
    return url


class Call:
    def __init__(
        self,
        name,
        url,
        method="GET",
        headers=None,
        content=None,
        timeout=None,
        consume="all",
        gates=(),
        extensions=None,
        tok=None,
    ):
        self.name = name
        self.url = url
        self.method = method
        self.headers = list(headers or [])
        self.content = content
        self.timeout = timeout  # dict for extensions["timeout"] or None
        self.consume = consume  # "all" | "none" | ("chunks", n)
        self.gates = tuple(gates)  # subset of {"start", "read", "close"}: wait for the driver there
        self.extensions = dict(extensions or {})
        self.tok = tok or name

    def spec(self):
        return {
            "name": self.name,
            "url": self.url,
            "method": self.method,
            "timeout": self.timeout,
            "consume": self.consume if isinstance(self.consume, str) else list(self.consume),
            "gates": list(self.gates),
        }


_INFO = re.compile(r"^'(?P<origin>[^']*)', (?P<proto>HTTP/1\.1|HTTP/2), (?P<state>[A-Z]+), Request Count: (?P<n>\d+)$")
_REPR = re.compile(
    r"Requests: (?P<ra>\d+) active, (?P<rq>\d+) queued \| Connections: (?P<ca>\d+) active, (?P<ci>\d+) idle"
)


def parse_info(s):
    if s == "CONNECTING":
        return {"state": "CONNECTING", "proto": "?", "origin": "", "count": 0}
    if s == "CONNECTION FAILED":
        return {"state": "FAILED", "proto": "?", "origin": "", "count": 0}
    m = _INFO.match(s)
    if not m:
        return {"state": "UNKNOWN:" + s, "proto": "?", "origin": "", "count": 0}
    return {
        "state": m.group("state"),
        "proto": "h2" if m.group("proto") == "HTTP/2" else "h1",
        "origin": m.group("origin"),
        "count": int(m.group("n")),
    }


class AsyncRun:
    """One execution of a scenario.  `decide(run, enabled)` picks the next stimulus at every
    quiescent point; `inject` maps a global loop-step number to stimuli applied right before
    that step (cancellation between two atomic blocks)."""

    MAX_STEPS = 20000

    def __init__(self, pool_kwargs, calls, world=None, origins=None, record=True, make_pool=None):
        self.loop = VLoop()
        self.net = SimNet(world or World(), current_task=self._task_name)
        self.backend = AsyncSimBackend(self.net)
        self.ctx = FakeSSLContext("origin")
        self.pool_kwargs = dict(pool_kwargs)
        self.calls = {c.name: c for c in calls}
        self.order = [c.name for c in calls]
        self.tasks = {}
        self.scopes = {}
        self.gates = {}  # name -> {gate: future}
        self.waiting_gate = {}  # name -> gate
        self.outcome = {}  # name -> dict
        self.phase = {c.name: "init" for c in calls}  # init|calling|holding|closing|ended
        self.events = []
        self.record = record
        self.cids = {}  # id(conn) -> small int
        self.cobjs = {}  # small int -> conn
        self.inject = {}
        self.stuck = False
        self.errors = []
        self._undo_clock = patch_httpcore_clock(lambda: self.loop.vt)
        self.loop.enter()
        self.net.on_op = self._on_op
        kw = dict(self.pool_kwargs)
        kw.setdefault("ssl_context", self.ctx)
        kw["network_backend"] = self.backend
        self.pool = make_pool(kw) if make_pool else httpcore.AsyncConnectionPool(**kw)
        self.origins = origins or self._origins_of_calls()
        self.origin_keys = [ind_origin_of(o) for o in self.origins]
        self.last_obs = None
        self.pool_closed = False
        self.decisions = []
        self.body = {}
        self.did_cancel = False
        self.pos = 0  # position counter: +1 per loop step and per driver stimulus (injection points)
        self.cancelled = set()
        self.allow_native = True

    # -- identity helpers ---------------------------------------------------
    def _task_name(self):
        try:
            t = asyncio.current_task(self.loop)
        except RuntimeError:
            t = None
        return t.get_name() if t is not None else "-"

    def _origins_of_calls(self):
        """Distinct origins of the calls, in order of first appearance.  Distinctness is decided by
        the harness's own URL splitting (urls.ind_origin), never by httpcore's Origin equality."""
        keys = []
        for c in self.calls.values():
            try:
                k = ind_origin(c.url)
            except Exception:
                continue
            if k not in keys:
                keys.append(k)
        return [make_origin(k) for k in keys]

    def cid(self, conn):
        k = id(conn)
        if k not in self.cids:
            n = len(self.cids) + 1
            self.cids[k] = n
            self.cobjs[n] = conn
        return self.cids[k]

    # -- recorder -----------------------------------------------------------
    def _on_op(self, op, phase):
        if not self.record:
            return
        a = op.args
        ev = {"ev": "Op" + phase.capitalize(), "task": op.task, "op": op.seq, "kind": op.kind}
        if op.sid is not None:
            ev["sid"] = op.sid
        if phase == "start":
            if "timeout" in a:
                ev["timeout"] = a["timeout"]
            if op.kind == "connect_tcp":
                ev["host"] = a["host"]
                ev["port"] = a["port"]
        if phase == "done" and op.outcome is not None:
            ev["result"] = "ok" if op.outcome[0] == "ok" else type(op.outcome[1]).__name__
        self.events.append(ev)

    def event(self, ev, **kw):
        if self.record:
            d = {"ev": ev}
            d.update(kw)
            self.events.append(d)

    def observe(self):
        pool = self.pool
        conns = []
        pooled = pool.connections
        for c in pooled:
            conns.append(self._conn_obs(c, True))
        pooled_ids = {x["id"] for x in conns}
        others = []
        for n, c in sorted(self.cobjs.items()):
            if n not in pooled_ids:
                others.append(self._conn_obs(c, False))
        m = _REPR.search(repr(pool))
        reqs = {"active": int(m.group("ra")), "queued": int(m.group("rq"))} if m else {"active": -1, "queued": -1}
        streams = []
        for r in self.net.streams:
            streams.append(
                {
                    "sid": r.sid,
                    "open": r.open,
                    "owner": self.cid(r.owner) if r.owner is not None else 0,
                    "to": r.endpoint,
                    "tls": len(r.tls),
                }
            )
        timers = sorted(h._when for h in self.loop._scheduled if not h._cancelled and h._when > self.loop.vt)
        return {
            "clock": self.loop.vt,
            "timers": timers,
            "pool": conns,
            "evicted": others,
            "reqs": reqs,
            "streams": streams,
            "phase": dict(self.phase),
        }

    def _conn_obs(self, c, pooled):
        try:
            info = parse_info(c.info())
            d = {
                "id": self.cid(c),
                "kind": type(c).__name__,
                "state": info["state"],
                "proto": info["proto"],
                "count": info["count"],
                "info_origin": info["origin"],
                "idle": bool(c.is_idle()),
                "avail": bool(c.is_available()),
                "expired": bool(c.has_expired()),
                "closed": bool(c.is_closed()),
                "pooled": pooled,
                "handles": [i for i, o in enumerate(self.origins) if c.can_handle_request(o)],
                "xc": self.exchange_clean(c),
            }
        except Exception as e:  # an inspection method that raises is itself worth recording
            d = {"id": self.cid(c), "kind": type(c).__name__, "state": "INSPECT-ERROR:" + type(e).__name__, "pooled": pooled}
        return d

    def snapshot(self, ev, **kw):
        """Record an event together with the projected state after it."""
        if not self.record:
            return
        obs = self.observe()
        d = {"ev": ev}
        d.update(kw)
        d["obs"] = obs
        self.events.append(d)
        self.last_obs = obs

    # -- callers ------------------------------------------------------------
    async def _gate(self, name, gate):
        if gate in self.calls[name].gates:
            fut = self.loop.create_future()
            self.gates.setdefault(name, {})[gate] = fut
            self.waiting_gate[name] = gate
            try:
                await fut
            finally:
                self.waiting_gate.pop(name, None)

    async def _caller(self, name):
        call = self.calls[name]
        out = {"result": None}
        self.outcome[name] = out
        scope = anyio.CancelScope()
        self.scopes[name] = scope
        resp = None
        partial_it = None
        try:
            with scope:
                await self._gate(name, "start")
                ext = dict(call.extensions)
                if call.timeout is not None:
                    ext["timeout"] = dict(call.timeout)
                url = mk_url(call.url)
                headers = [(b"Host", httpcore.URL(url).host if isinstance(url, str) else url.host), (b"X-Tok", call.tok.encode())] + [
                    (k, v) for k, v in call.headers
                ]
                content = call.content
                if callable(content):
                    content = content()
                if isinstance(content, tuple) and content and content[0] == "gated":
                    gparts = list(content[1])

                    async def ggen(gparts=gparts, name=name):
                        for i, p in enumerate(gparts):
                            if i:
                                fut = self.loop.create_future()
                                self.gates.setdefault(name, {})["body"] = fut
                                self.waiting_gate[name] = "body"
                                try:
                                    await fut
                                finally:
                                    self.waiting_gate.pop(name, None)
                            yield p

                    content = ggen()
                elif isinstance(content, (list, tuple)):
                    parts = list(content)

                    async def agen(parts=parts):
                        for p in parts:
                            yield p

                    content = agen()
                req = httpcore.Request(call.method, url, headers=headers, content=content, extensions=ext)
                self.phase[name] = "calling"
                self.event("Call", r=name)
                if not isinstance(url, str) and any(b > 0x7F for b in bytes(url.host)):
                    # a host that no network back end can be given (it is not ASCII): the ENVIRONMENT's refusal of
                    # this call's connection attempt, known from the stimulus alone (Pool.tla ConnectFail)
                    self.event("Fault", r=name, op=-1, kind="connect_tcp", fault="UnconnectableHost")
                resp = await self.pool.handle_async_request(req)
                self.phase[name] = "holding"
                out["status"] = resp.status
                out["headers"] = list(resp.headers)
                out["ext"] = {k: v for k, v in resp.extensions.items() if k in ("http_version", "reason_phrase", "stream_id")}
                tok = dict((k.lower(), v) for k, v in resp.headers).get(b"x-tok")
                out["tok"] = tok.decode() if tok is not None else ""
                self.event("Got", r=name, status=resp.status, tok=out["tok"], route=self.route_of(call), sent_on=self.streams_with_token(call.tok))
                body = b""
                out["body"] = body
                try:
                    # (inside the try: a caller that is cancelled while it holds the response
                    #  still closes it - letting go of the response is the CALLER's duty)
                    await self._gate(name, "read")
                    if call.consume == "all":
                        async for chunk in resp.aiter_stream():
                            body += chunk
                            out["body"] = body
                        out["complete"] = True
                    elif isinstance(call.consume, (tuple, list)) and call.consume[0] == "chunks":
                        # partial consumption: pull chunks one by one and leave the iterator
                        # suspended (it is finalised after the response has been closed)
                        if call.consume[1] > 0:
                            partial_it = resp.aiter_stream().__aiter__()
                            for _ in range(call.consume[1]):
                                try:
                                    chunk = await partial_it.__anext__()
                                except StopAsyncIteration:
                                    out["complete"] = True
                                    break
                                body += chunk
                                out["body"] = body
                    exp = b"body-of-" + call.tok.encode()
                    big = (exp + b"|") * 6
                    if isinstance(call.url, str) and "/upgrade" in call.url:
                        exp = big = b""  # 101 Switching Protocols has no body
                    self.event("BodyEnd", r=name, n=len(body), complete=bool(out.get("complete")), bodyok=(exp.startswith(body) or big.startswith(body)) and (not out.get("complete") or body in (exp, big)))
                    await self._gate(name, "close")
                finally:
                    self.phase[name] = "closing"
                    await resp.aclose()
                    if partial_it is not None:
                        await partial_it.aclose()
                out["result"] = "ok"
            if scope.cancelled_caught:
                out["result"] = "cancelled"
        except asyncio.CancelledError:
            out["result"] = "cancelled"
            out["exc"] = "CancelledError"
        except BaseException as e:  # noqa
            out["result"] = "exc"
            out["exc"] = type(e).__name__
            out["exc_mod"] = type(e).__module__
            out["msg"] = str(e)[:200]
            out["tb"] = traceback.format_exc()[-1500:]
            # an internal error of the HARNESS itself (raised by code under /verif/harness, a programming-error
            # class) must never be mistaken for behaviour of httpcore: it stops the check as a machinery failure
            tb_ = e.__traceback__
            while tb_ is not None and tb_.tb_next is not None:
                tb_ = tb_.tb_next
            inner = tb_.tb_frame.f_code.co_filename if tb_ is not None else ""
            if isinstance(e, (AttributeError, NameError, TypeError, KeyError, IndexError, UnboundLocalError)) and "/harness/" in inner and "/httpcore/" not in inner:
                from .tlc import MachineryError

                self.harness_error = MachineryError("the harness itself failed while driving a call:\n" + out["tb"])
        finally:
            if self.record:
                self.phase[name] = "ended"
            self.event("Return", r=name, out=out["result"], exc=out.get("exc", ""), nsent=len(self.streams_with_token(call.tok)))

    def start(self, name):
        t = self.loop.create_task(self._caller(name), name=name)
        self.tasks[name] = t
        self.event("Start", r=name)
        return t

    # -- stimuli ------------------------------------------------------------
    def enabled(self):
        en = []
        for n in self.order:
            if n not in self.tasks:
                en.append(("start", n))
                break  # arrivals in order
        for op in self.net.pending:
            if op.fut is not None and not op.fut.done() and self.net.ready(op):
                en.append(("op", op.seq))
        for n, g in list(self.waiting_gate.items()):
            en.append(("gate", n, g))
        t = self.loop.next_timer()
        if t is not None:
            en.append(("tick", t))
        return en

    def exchange_clean(self, conn):
        """C01 reuse gate, read off the simulated network: on every open stream this connection
        owns, the peer has received each request completely, has answered each of them, nothing
        it sent is still unread, and it has not announced that it will close."""
        for rec in self.net.streams:
            if rec.owner is conn and rec.open:
                peer = rec.peer
                while getattr(peer, "inner", None) is not None:
                    peer = peer.inner
                if hasattr(peer, "exchange_clean"):
                    if not peer.exchange_clean() or rec.inbuf:
                        return False
                    if getattr(peer, "closed", False):
                        return False
        return True

    def streams_with_token(self, tok):
        """Streams on which a peer has seen a request head carrying this caller's token."""
        out = []
        t = tok.encode()
        for rec in self.net.streams:
            peer = rec.peer
            seen = False
            while peer is not None and not seen:
                for h in getattr(peer, "heads", []):
                    if h.token == t:
                        seen = True
                peer = getattr(peer, "inner", None)
            if seen:
                out.append(rec.sid)
        return out

    def hop_forms(self, call):
        """C11 on the ledger, for EVERY transmission of the call's request (a transparent re-send
        included): a forwarding proxy is given the absolute URL, an origin (direct or through a tunnel)
        the origin-form target - read from the request line the peer's own parser saw."""
        if "target" in (call.extensions or {}) or not isinstance(call.url, str):
            return "ok"
        scheme, _, rest = call.url.partition("://")
        hostport, _, path = rest.partition("/")
        path = "/" + path
        proxy = self.pool_kwargs.get("proxy")
        forwarded = proxy is not None and proxy.url.scheme in (b"http", b"https") and scheme == "http"
        t = call.tok.encode()
        for rec in self.net.streams:
            peer, depth = rec.peer, 0
            while peer is not None:
                for h in getattr(peer, "heads", []):
                    if getattr(h, "framing", None) == "h2" or h.header(b"x-tok") != t or h.method == b"CONNECT":
                        continue
                    tgt = (h.target or b"").decode("latin1")
                    if forwarded and depth == 0:
                        host = hostport if ":" in hostport else hostport + ":80"
                        if tgt not in (call.url, f"{scheme}://{host}{path}"):
                            return "wrong-target-for-proxy:" + tgt[:60]
                    elif tgt != path:
                        return "wrong-target-for-origin:" + tgt[:60]
                peer = getattr(peer, "inner", None)
                depth += 1
        return "ok"

    def route_of(self, call):
        """C10 on the ledger (direct connections): the request went to a stream established to
        exactly its origin's host and port, TLS-wrapped iff the scheme is secure."""
        try:
            o = make_origin(ind_origin(call.url))
        except Exception:
            return "ok"
        hf = self.hop_forms(call)
        if hf != "ok":
            return hf
        proxy = self.pool_kwargs.get("proxy")
        if proxy is not None:
            return self._route_via_proxy(call, o, proxy)
        sids = self.streams_with_token(call.tok)
        if not sids:
            return "ok"
        for sid in sids:
            rec = self.net.streams[sid]
            if rec.kind != "tcp":
                continue
            if rec.host != o.host.decode() or rec.port != o.port:
                return f"wrong-endpoint:{rec.host}:{rec.port}"
            if bool(rec.tls) != (o.scheme in (b"https", b"wss")):
                return "wrong-tls"
            for lay in rec.tls:
                if lay.get("sni") != o.host.decode() and "sni_hostname" not in (call.extensions or {}):
                    return f"wrong-sni:{lay.get('sni')}"
                want = ["http/1.1", "h2"] if self.pool_kwargs.get("http2") else ["http/1.1"]
                if list(lay.get("alpn") or []) != want:
                    return "wrong-alpn:" + ",".join(lay.get("alpn") or [])
        return "ok"

    def _route_via_proxy(self, call, o, proxy):
        """C10 through a proxy: the stream goes to the proxy's endpoint; each TLS layer names the
        host it secures and offers h2 only where HTTP/2 may be spoken (never on the hop to an
        HTTP(S) proxy)."""
        pu = proxy.url
        secure = o.scheme in (b"https", b"wss")
        h2 = bool(self.pool_kwargs.get("http2"))
        for sid in self.streams_with_token(call.tok):
            rec = self.net.streams[sid]
            if rec.kind != "tcp":
                continue
            if rec.host != pu.host.decode() or rec.port != pu.port:
                return f"wrong-endpoint:{rec.host}:{rec.port}"
            layers = list(rec.tls)
            expect = []
            if pu.scheme == b"https":
                expect.append((pu.host.decode(), ["http/1.1"]))
            if secure:
                expect.append((o.host.decode(), ["http/1.1", "h2"] if h2 else ["http/1.1"]))
            if len(layers) != len(expect):
                return "wrong-tls"
            for lay, (sni, alpn) in zip(layers, expect):
                if lay.get("sni") != sni:
                    return f"wrong-sni:{lay.get('sni')}"
                if list(lay.get("alpn") or []) != alpn:
                    return "wrong-alpn:" + ",".join(lay.get("alpn") or [])
        return "ok"

    def idle_streams(self):
        """Open streams whose owning connection currently reports idle."""
        out = []
        idle = {id(c) for c in self.pool.connections if c.is_idle()}
        for r in self.net.streams:
            if r.open and not r.eof and r.owner is not None and id(r.owner) in idle:
                out.append(r.sid)
        return out

    def live(self):
        return [n for n, t in self.tasks.items() if not t.done()]

    def apply(self, st):
        self.decisions.append(list(st))
        kind = st[0]
        if kind == "start":
            self.start(st[1])
        elif kind == "op":
            op = self.net.ops[st[1]]
            fault = st[2] if len(st) > 2 else None
            nbytes = st[3] if len(st) > 3 else None
            if fault:
                self.event("Fault", r=op.task, op=op.seq, kind=op.kind, fault=fault)
            out = self.net.resolve(op, fault=fault, nbytes=nbytes)
            if not op.fut.done():
                if out[0] == "ok":
                    val = out[1]
                    op.fut.set_result(val)
                else:
                    op.fut.set_exception(out[1])
        elif kind == "gate":
            fut = self.gates[st[1]].pop(st[2])
            if not fut.done():
                fut.set_result(None)
            self.event("Gate", r=st[1], gate=st[2])
        elif kind in ("tick", "advance"):
            self.loop.advance_to(st[1])
            self.snapshot("Tick", t=st[1], injected=bool(getattr(self, "injecting", False)))
        elif kind in ("cancel", "cancel_if_live"):
            name, style = st[1], st[2]
            t = self.tasks.get(name)
            if kind == "cancel_if_live" and (t is None or t.done() or name not in self.scopes or name in self.cancelled):
                self.decisions.pop()
                return
            self.did_cancel = True
            self.cancelled.add(name)
            self.event("Cancel", r=name, style=style, where=self.where(name), shielded=self.shielded(name), blocked=self.blocked_on(name))
            if style == "native":
                self.tasks[name].cancel()
            else:
                self.scopes[name].cancel()
        elif kind == "peerclose":
            self.net.peer_close(st[1])
            self.snapshot("PeerClose", sid=st[1])
        elif kind == "poolclose":
            t = self.loop.create_task(self._close_pool(), name="closer")
            self.tasks["closer"] = t
        else:
            raise AssertionError(st)

    async def _close_pool(self):
        self.event("PoolCloseStart")
        await self.pool.aclose()
        self.pool_closed = True
        self.event("PoolCloseEnd")

    def shielded(self, name):
        """Is the caller currently inside an anyio shielded cancel scope?"""
        t = self.tasks.get(name)
        try:
            from anyio._backends._asyncio import _task_states

            sc = _task_states[t].cancel_scope
            while sc is not None:
                if sc.shield:
                    return True
                sc = sc._parent_scope
        except Exception:
            pass
        return False

    def blocked_on(self, name):
        """What the caller is suspended on: a pending network op kind, or 'sync' (lock, event,
        semaphore, plain yield)."""
        for op in self.net.pending:
            if op.task == name and op.fut is not None and not op.fut.done():
                return op.kind
        if name in self.waiting_gate:
            return "gate"
        return "sync"

    def where(self, name):
        """Innermost httpcore frame of the caller's await chain (diagnostics only)."""
        t = self.tasks.get(name)
        if t is None or t.done():
            return ""
        best = ""
        co = t.get_coro()
        for _ in range(200):
            if co is None:
                break
            fr = getattr(co, "cr_frame", None) or getattr(co, "ag_frame", None) or getattr(co, "gi_frame", None)
            if fr is not None:
                fn = fr.f_code.co_filename
                if "/httpcore/" in fn:
                    best = fn.split("/httpcore/")[-1] + ":" + fr.f_code.co_name
                elif "/anyio/" in fn and best and "|" not in best:
                    best += "|" + fr.f_code.co_name
            nxt = getattr(co, "cr_await", None)
            if nxt is None:
                nxt = getattr(co, "ag_await", None)
            if nxt is None:
                nxt = getattr(co, "gi_yieldfrom", None)
            co = nxt
        return best

    # -- running ------------------------------------------------------------
    def quiesce(self):
        while True:
            if self.loop.steps >= self.MAX_STEPS:
                self.stuck = True
                self.event("Livelock")
                return
            pre = self.inject.pop(self.pos, None)
            if pre:
                self.injecting = True
                for st in pre:
                    self.apply(st)
                self.injecting = False
            n_ev = len(self.events)
            t = self.loop.step()
            if t is False:
                return
            self.pos += 1
            name = t.get_name() if t is not None else "-"
            if self.record:
                obs = self.observe()
                if obs != self.last_obs or len(self.events) != n_ev or name in self.calls:
                    self.events.append({"ev": "Step", "task": name, "obs": obs})
                    self.last_obs = obs

    def run(self, decide=None, max_choices=2000):
        decide = decide or default_decide
        self.snapshot("Init")
        n = 0
        while n < max_choices:
            self.quiesce()
            if self.stuck:
                break
            en = self.enabled()
            st = decide(self, en)
            if st is None:
                break
            self.apply(st)
            self.pos += 1
            n += 1
        self.quiesce()
        live = self.live()
        if live and not self.stuck:
            self.event("Stuck", live=live, where={n: self.where(n) for n in live})
        self.snapshot("End", live=live)
        return self

    def finish(self):
        """Cancel whatever is still alive and dispose of the loop."""
        if getattr(self, "harness_error", None) is not None:
            raise self.harness_error
        self.record = False
        self.final_outcome = {n: dict(o) for n, o in self.outcome.items()}
        for t in self.tasks.values():
            if not t.done():
                t.cancel()
        for _ in range(2000):
            if self.loop.step() is False:
                break
        for fut_map in self.gates.values():
            for f in fut_map.values():
                if not f.done():
                    f.cancel()
        self._undo_clock()
        self.loop.shutdown()


def ind_origin_of(o):
    """Independent key of an httpcore.Origin object that the HARNESS built (or was given)."""
    from .urls import DEFAULT_PORTS

    scheme = bytes(o.scheme).decode("latin1").lower()
    return (scheme, bytes(o.host).decode("latin1").lower().strip("[]"), o.port if o.port is not None else DEFAULT_PORTS.get(scheme))


def default_decide(run, en):
    """Default schedule: arrivals first (in order), then gates, then network operations in issue
    order, then the clock; never a fault or a cancellation."""
    for kind in ("start", "gate", "op", "tick"):
        for st in en:
            if st[0] == kind:
                return st
    return None


def scripted(script, fallback=default_decide):
    """Chooser that follows `script` (a list of stimuli; an entry may also be a callable
    (run, enabled) -> stimulus) and then the fallback."""
    it = iter(script)

    def decide(run, en):
        for st in it:
            if callable(st):
                st = st(run, en)
                if st is None:
                    continue
            return tuple(st)
        return fallback(run, en)

    return decide


def run_script(run, script, settle=default_decide, hold=()):
    """High-level sequential histories: each entry is applied and then the default schedule
    runs until nothing but start gates / the clock is left.
      ("go", name)            release the caller's start gate
      ("release", name, gate) release another gate of the caller
      ("advance", t)          move the virtual clock to t
      ("peerclose", origin_index)  the server closes an idle connection of that origin
      ("cancel", name, style)
    """
    run.snapshot("Init")

    def settle_all():
        for _ in range(5000):
            run.quiesce()
            if run.stuck:
                return
            en = [s for s in run.enabled() if not (s[0] == "gate" and s[2] == "start") and s[0] != "tick"]
            en = [s for s in en if not (s[0] == "gate" and s[2] in run.hold_gates)]
            st = settle(run, en)
            if st is None:
                return
            run.apply(st)
            run.pos += 1

    run.hold_gates = set(hold)
    for name in run.order:
        if name not in run.tasks:
            run.start(name)
    settle_all()
    for step in script:
        k = step[0]
        if k == "go":
            run.apply(("gate", step[1], "start"))
        elif k == "release":
            run.apply(("gate", step[1], step[2]))
        elif k == "advance":
            run.apply(("advance", step[1]))
        elif k == "peerclose":
            if isinstance(step[1], str):
                o = make_origin(ind_origin(step[1]))
            elif step[1] < len(run.origins):
                o = run.origins[step[1]]
            else:
                continue
            sid = None
            for rec in run.net.streams:
                if rec.open and not rec.eof and rec.owner is not None and rec.owner.is_idle() and rec.owner.can_handle_request(o):
                    sid = rec.sid
                    break
            if sid is None:
                continue
            run.apply(("peerclose", sid))
        elif k == "srvframe":
            # an HTTP/2 server says something on an IDLE connection that is no reason to drop it (PING, or a
            # SETTINGS frame): the socket becomes readable, the connection stays healthy
            o = make_origin(ind_origin(step[1]))
            for rec in run.net.streams:
                if rec.open and not rec.eof and rec.owner is not None and rec.owner.is_idle() and rec.owner.can_handle_request(o) and hasattr(rec.peer, "conn"):
                    if len(step) > 2 and step[2] == "settings":
                        import h2.settings

                        rec.peer.conn.update_settings({h2.settings.SettingCodes.MAX_HEADER_LIST_SIZE: 65000})
                    else:
                        rec.peer.conn.ping(b"verifpng")
                    rec.push(rec.peer.conn.data_to_send())
                    run.event("SrvFrame", sid=rec.sid)
                    break
        elif k == "cancel":
            run.apply(("cancel_if_live", step[1], step[2]))
        else:
            raise AssertionError(step)
        run.pos += 1
        settle_all()
    live = run.live()
    run.snapshot("End", live=live)
    return run
