"""C02 with spec/Framing.tla: TLC proves on the reference receiver that the outcome equals
Expected(case) for EVERY cut set and that deliveries are prefix-safe; concretised cases are
received by the real HTTP/1.1 and HTTP/2 connections under chosen segmentations and
truncations, and TLC judges the observations (FramingTrace)."""
from __future__ import annotations

import copy
import itertools
import random

from . import framing as F
from . import tlc
from .checklib import Check, seed


def mc_cfg(cases, dev="NoDev"):
    return f"SPECIFICATION Spec\nCONSTANTS\n Cases <- {cases}\n Deviations <- {dev}\nINVARIANT PrefixSafe\nINVARIANT SegmentationIndependent\nINVARIANT InterimNeverFinal\n"


def partitions(n, rng, k=2):
    if n == 0:
        return [[]]
    outs = [[n]]
    if n >= 2:
        outs.append([1, n - 1])
        outs.append([n - 1, 1])
    if n >= 3:
        outs.append([1] * n)
    return outs[: k + 1]


def h11_cases(tier, rng):
    quick = tier == "quick"
    for ni in (0, 1, 2, 3):
        for status in (200, 404, 204, 304):
            for method in ("GET", "HEAD"):
                for framing in ("cl", "chunked", "close", "none"):
                    if status in (204, 304) and framing not in ("none", "cl"):
                        continue
                    for n in ((0, 3) if quick else (0, 1, 3, 6)):
                        if framing == "none" and n:
                            continue
                        for chunks in partitions(n, rng) if framing == "chunked" else [None]:
                            hshapes = list(F.HEADER_SHAPES)
                            if quick:
                                hshapes = [rng.choice(hshapes)]
                            for hs in hshapes:
                                version = b"HTTP/1.0" if (framing == "close" and rng.random() < 0.5) else b"HTTP/1.1"
                                if quick and rng.random() < 0.45:
                                    continue
                                yield ni, status, method, framing, n, chunks, hs, version


def segmentations(wire_len, marks, rng, quick):
    yield []
    yield list(range(1, wire_len))
    cands = F.cut_candidates(wire_len, marks)
    k = 3 if quick else 8
    for _ in range(k):
        c = sorted(rng.sample(cands, min(len(cands), rng.randrange(1, 4)))) if cands else []
        yield c


def run(prop, tier):
    chk = Check(prop, tier, "model_checking")
    rng = random.Random(seed())
    quick = tier == "quick"
    tlc.sany("MCFraming.tla")
    tlc.sany("MCFramingTrace.tla")
    res = tlc.model_check("MCFraming", mc_cfg("QCases" if quick else "TCases"), tag="mcF", timeout=3600)
    if not res["ok"]:
        raise tlc.MachineryError("Framing violates its own property:\n" + "\n".join(res["errors"][:4]))
    vac = tlc.model_check("MCFraming", mc_cfg("QCases", "DevSkipOne"), tag="vacF")
    if not any("SegmentationIndependent" in e or "InterimNeverFinal" in e for e in vac["errors"]):
        raise tlc.MachineryError("vacuity guard: deviation SkipOneInterim violates nothing")
    chk.coverage["states"] = res["distinct"]
    chk.coverage["transitions"] = res["states"]
    chk.coverage["model_runs"] = [{"cases": "QCases" if quick else "TCases", "distinct": res["distinct"], "generated": res["states"]}]
    chk.coverage["vacuity_guards"] = [{"deviation": "SkipOneInterim", "found": True}]
    traces, metas = [], []
    evals = 0
    # ---- HTTP/1.1 ----
    for ni, status, method, framing, n, chunks, hs, version in h11_cases(tier, rng):
        case, wire, sent = F.h11_case(ni, status, method, framing, n, chunks or [], hs, version, rng)
        marks = [case["headEnd"]] + case["ends"] + [case["eom"]]
        pos = 0
        while True:
            i = wire.find(b"\r\n", pos)
            if i < 0:
                break
            marks.append(i + 1)
            pos = i + 2
        for cuts in segmentations(len(wire), marks, rng, quick):
            ob, out = F.run_h11(case, wire, cuts, len(wire), method)
            evals += 1
            traces.append(F.encode(case, cuts, ob, out, sent))
            metas.append({"proto": "h11", "cuts": cuts if len(cuts) < 12 else "every byte", "params": [ni, status, method, framing, n, chunks, hs, version.decode()], "out": {k: (v if not isinstance(v, bytes) else v.decode("latin1")) for k, v in out.items() if k in ("kind", "exc", "msg", "status")}})
        # truncation points
        tps = F.cut_candidates(len(wire), marks) + [0]
        for t in rng.sample(tps, min(len(tps), 3 if quick else 10)):
            c2 = dict(case, trunc=t)
            cuts = [] if rng.random() < 0.5 else sorted(rng.sample(range(1, max(2, t)), min(2, max(0, t - 1))))
            ob, out = F.run_h11(c2, wire, cuts, t, method)
            evals += 1
            traces.append(F.encode(c2, cuts, ob, out, sent))
            metas.append({"proto": "h11", "cuts": cuts, "trunc": t, "params": [ni, status, method, framing, n, chunks, hs, version.decode()], "out": {k: (v if not isinstance(v, bytes) else v.decode("latin1")) for k, v in out.items() if k in ("kind", "exc", "msg", "status")}})
    # ---- HTTP/2 ----
    for ni in (0, 1, 2):
        for status in (200, 404, 204):
            for method in ("GET", "HEAD"):
                for n in ((0, 5) if quick else (0, 1, 5, 9)):
                    for frames in partitions(n, rng):
                        hs = rng.choice(list(F.HEADER_SHAPES))
                        if quick and rng.random() < 0.5:
                            continue
                        r = F.h2_case_and_run(ni, status, method, n, frames, hs, None, None, rng)
                        if r is None:
                            raise tlc.MachineryError("HTTP/2 layout pass produced no response layout")
                        case, sent, marks, runner, (ob0, out0) = r
                        traces.append(F.encode(case, [], ob0, out0, sent))
                        metas.append({"proto": "h2", "cuts": [], "params": [ni, status, method, n, frames, hs], "out": {"kind": out0["kind"], "exc": out0.get("exc")}})
                        evals += 1
                        for cuts in list(segmentations(case["wire"], marks, rng, quick))[1:]:
                            ob, out, _, _ = runner(cuts, None)
                            evals += 1
                            traces.append(F.encode(case, cuts, ob, out, sent))
                            metas.append({"proto": "h2", "cuts": cuts if len(cuts) < 12 else "every byte", "params": [ni, status, method, n, frames, hs], "out": {"kind": out["kind"], "exc": out.get("exc")}})
                        tps = [t for t in F.cut_candidates(case["wire"], marks) if t > 0]
                        for t in rng.sample(tps, min(len(tps), 2 if quick else 8)):
                            c2 = dict(case, trunc=t)
                            ob, out, _, _ = runner([], t)
                            evals += 1
                            traces.append(F.encode(c2, [], ob, out, sent))
                            metas.append({"proto": "h2", "cuts": [], "trunc": t, "params": [ni, status, method, n, frames, hs], "out": {"kind": out["kind"], "exc": out.get("exc")}})
                        # stream reset after k DATA frames
                        if method == "GET" and status == 200 and frames:
                            # every error code a server may put into RST_STREAM, NO_ERROR included: a reset
                            # before END_STREAM is never a complete body, whatever the code says
                            codes = (0, 2, 8) if quick else (0, 1, 2, 5, 7, 8, 11, 13)
                            for k in range(0, len(frames)):
                              for code in codes:
                                r2 = F.h2_case_and_run(ni, status, method, n, frames, hs, None, "rst", rng, trunc_at=k, rst_code=code)
                                if r2 is None:
                                    continue
                                case_r, sent_r, _, _, (obr, outr) = r2
                                evals += 1
                                traces.append(F.encode(case_r, [], obr, outr, sent_r))
                                metas.append({"proto": "h2", "rst_after": k, "rst_code": code, "params": [ni, status, method, n, frames, hs], "out": {"kind": outr["kind"], "exc": outr.get("exc")}})
    verdicts, stats = F.validate(traces)
    rejected = [(t, m, v) for t, m, v in zip(traces, metas, verdicts) if v[0] != "ACCEPT"]
    accepted = [t for t, v in zip(traces, verdicts) if v[0] == "ACCEPT"]
    # canaries
    base = next(t for t in accepted if t["out"]["kind"] == "ok" and len(t["out"]["body"]) >= 2 and len(t["case"]["msgs"]) >= 2)
    c1 = copy.deepcopy(base)
    c1["out"]["body"] = c1["out"]["body"][:-1]
    c2 = copy.deepcopy(base)
    c2["out"]["status"] = c2["case"]["msgs"][0]["status"]
    c2["out"]["hdr"] = c2["case"]["msgs"][0]["hdr"]
    c3 = copy.deepcopy(base)
    c3["obs"][0]["blen"] = 1
    c4 = copy.deepcopy(next(t for t in accepted if t["out"]["kind"] == "error"))
    c4["out"] = {"kind": "ok", "status": 200, "hdr": 9, "body": [], "rv": "ok"}
    cres, _ = F.validate([c1, c2, c3, c4])
    can = {}
    for name, v in zip(["body-shorter", "interim-returned", "delivered-before-arrival", "truncation-silent"], cres):
        can[name] = v[0]
        if v[0] == "ACCEPT":
            raise tlc.MachineryError(f"canary '{name}' was ACCEPTED: FramingTrace does not bind")
    for t, m, v in rejected:
        what = f"response reception rejected by FramingTrace at observation {v[1]} of {len(t['obs'])}: {m}"
        chk.classify({"module": "Framing", "deviation": ["<none>"], "stimulus": [m["proto"]]}, what, {"trace": t, "meta": m, "verdict": list(v)})
    cov = chk.coverage
    cov["evaluations"] = evals
    cov["distinct_nontrivial"] = len({repr((t["case"], t["obs"])) for t in traces if len(t["obs"]) >= 2})
    cov["rule"] = "one evaluation = one response received by the real connection for one concretised case x segmentation x truncation; distinct = distinct (case, observation sequence); non-trivial = at least two network reads"
    cov["traces_validated_against_impl"] = len(accepted)
    cov["traces_rejected"] = len(rejected)
    cov["trace_states"] = stats.get("distinct", 0)
    cov["canaries"] = can
    cov["exhaustive"] = False
    cov["samples"] = [dict(m, observations=len(t["obs"])) for t, m in list(zip(traces, metas))[:2] + list(zip(traces, metas))[-2:]]
    cov["checker_cmd"] = "tlc -workers 1 -config <generated> MCFramingTrace.tla (TRACE_FILE=<batch>.json), sharded"
    cov["trusted_base"] = ["TLC 1.8.0", "concretisation of cases into bytes with recorded offsets (harness/framing.py)", "h2 server-side connection used to PRODUCE well-formed HTTP/2 answers", "simulated network segmentation"]
    chk.assumptions += [
        "responses are in canonical 'Name: value' form; header values / reason phrases are drawn from small fixed tables (the byte space inside a token is sampled, not enumerated)",
        "cut sets: one read, one byte at a time, and seeded sets of <= 3 cuts around every structural offset; truncation points sampled from the same offsets",
    ]
    return chk.finish()
