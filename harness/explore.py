"""Exploration strategies over AsyncRun executions (who chooses the stimuli).

A *scenario* is a function () -> AsyncRun (fresh, not yet run) plus encoder arguments.
Every execution is deterministic given the scenario and the decisions, so it can be replayed
from (scenario id, decisions, injections)."""
from __future__ import annotations

import random

from .driver import AsyncRun, default_decide, scripted

FAULTS_BY_KIND = {
    "connect_tcp": ["ConnectError", "ConnectTimeout"],
    "connect_unix": ["ConnectError", "ConnectTimeout"],
    "start_tls": ["ConnectError", "ConnectTimeout"],
    "read": ["ReadError", "ReadTimeout", "EOF", "Garbage"],
    "write": ["WriteError", "WriteTimeout"],
}


def baseline(make):
    run = make()
    run.run()
    return run


def fault_variants(make, kinds=FAULTS_BY_KIND, decide0=None, tag="fault"):
    """One execution per (network operation index k, fault kind): the k-th operation that the
    default schedule resolves gets the fault; everything else follows the default schedule
    (decide0: another base schedule, e.g. sequential_decide - the failed call is over and done with
    before the next caller arrives)."""
    if decide0 is not None:
        base = make()
        base.run(decide0)
        ops = [(op.seq, op.kind) for op in base.net.ops if op.kind in kinds and op.state == "done"]
        base.finish()
        for seq, kind in ops:
            for f in kinds[kind]:
                run = make()

                def decide(r, en, seq=seq, f=f):
                    st = decide0(r, en)
                    if st is not None and st[0] == "op" and st[1] == seq:
                        return ("op", seq, f)
                    return st

                run.run(decide)
                yield (tag, seq, kind, f), run
        return
    base = baseline(make)
    ops = [(op.seq, op.kind) for op in base.net.ops if op.kind in kinds and op.state == "done"]
    base.finish()
    for seq, kind in ops:
        for f in kinds[kind]:
            run = make()

            def decide(r, en, seq=seq, f=f):
                st = default_decide(r, en)
                if st is not None and st[0] == "op" and st[1] == seq:
                    return ("op", seq, f)
                return st

            run.run(decide)
            yield ("fault", seq, kind, f), run


def cancel_variants(make, victims=None, styles=("scope", "native")):
    """One execution per (loop step k, caller, style): the caller is cancelled right before
    loop step k of the default schedule."""
    base = baseline(make)
    nsteps = base.pos
    names = victims or base.order
    base.finish()
    for k in range(nsteps + 1):
        for name in names:
            for style in styles:
                run = make()
                run.inject = {k: [("cancel_if_live", name, style)]}
                run.run()
                if run.did_cancel:
                    yield ("cancel", k, name, style), run
                else:
                    run.finish()


def random_walk(make, seed, p_fault=0.05, p_cancel=0.03, p_tick=0.1, p_peerclose=0.05, max_choices=400):
    rng = random.Random(seed)
    run = make()

    def decide(r, en):
        if not en:
            return None
        live = r.live()
        x = rng.random()
        if live and x < p_cancel:
            n = rng.choice(live)
            if n in r.scopes:
                return ("cancel", n, rng.choice(["scope", "native"]) if r.allow_native else "scope")
        ops = [s for s in en if s[0] == "op"]
        if ops and x < p_cancel + p_fault:
            s = rng.choice(ops)
            kind = r.net.ops[s[1]].kind
            if kind in FAULTS_BY_KIND:
                return ("op", s[1], rng.choice(FAULTS_BY_KIND[kind]))
        if x < p_cancel + p_fault + p_peerclose:
            idle = r.idle_streams()
            if idle:
                return ("peerclose", rng.choice(idle))
        ticks = [s for s in en if s[0] == "tick"]
        others = [s for s in en if s[0] != "tick"]
        if ticks and (not others or rng.random() < p_tick):
            return ticks[0]
        return rng.choice(others) if others else None

    run.run(decide, max_choices=max_choices)
    return run


def dfs_orders(make, depth=12, max_runs=2000, kinds=("op", "gate", "start", "tick")):
    """Bounded depth-first search over the orders in which pending stimuli are applied:
    executions are re-run from the start (the runtime is deterministic)."""
    runs = 0
    stack = [[]]
    seen_prefix = set()
    while stack and runs < max_runs:
        prefix = stack.pop()
        run = make()
        choice_log = []

        def decide(r, en, prefix=prefix, log=choice_log):
            en = [s for s in en if s[0] in kinds]
            if not en:
                return None
            i = len(log)
            if i < len(prefix):
                idx = prefix[i]
                if idx >= len(en):
                    idx = 0
            else:
                idx = 0
                if i < depth:
                    for alt in range(1, len(en)):
                        key = tuple(prefix[:i]) + tuple(log[len(prefix):]) + (alt,)
                        cand = list(prefix) + log[len(prefix):] + [alt]
                        t = tuple(cand)
                        if t not in seen_prefix:
                            seen_prefix.add(t)
                            stack.append(cand)
            log.append(idx)
            return en[idx]

        run.run(decide)
        runs += 1
        yield ("dfs", tuple(choice_log)), run


def late_decide(who, at_pos, fault=None):
    """Default schedule, except that caller `who` arrives only once the position counter has
    reached `at_pos`, and (optionally) operation number fault[0] fails with fault[1]."""

    def decide(r, en):
        en2 = [s for s in en if not (s[0] == "start" and s[1] == who and r.pos < at_pos)]
        # arrivals are in order: withholding `who` also withholds later ones
        st = default_decide(r, en2)
        if st is None and len(en2) != len(en):
            st = default_decide(r, en)  # nothing else can happen: let it arrive now
        if st is not None and fault and st[0] == "op" and st[1] == fault[0]:
            return ("op", st[1], fault[1])
        return st

    return decide


def arrival_variants(make, who=None, with_faults=False, kinds=FAULTS_BY_KIND, stride=1):
    """The last caller (or `who`) arrives at every position of the schedule; optionally each
    combined with one fault on an earlier operation."""
    base = baseline(make)
    who = who or base.order[-1]
    npos = base.pos
    ops = [(op.seq, op.kind) for op in base.net.ops if op.kind in kinds and op.state == "done"]
    base.finish()
    for p in range(0, npos + 1, stride):
        run = make()
        run.run(late_decide(who, p))
        yield ("late", who, p), run
        if with_faults:
            for seq, kind in ops:
                f = kinds[kind][0]
                run = make()
                run.run(late_decide(who, p, (seq, f)))
                if any(e["ev"] == "Fault" for e in run.events):
                    yield ("late+fault", who, p, seq, f), run
                else:
                    run.finish()


def time_variants(make, stride=1):
    """The clock jumps to each deadline seen in the default schedule right before every position
    (also between two atomic blocks: a timer that falls due while a wake-up is still queued)."""
    base = baseline(make)
    deadlines = set()
    for ev in base.events:
        o = ev.get("obs")
        if o:
            deadlines.update(o["timers"])
    npos = base.pos
    base.finish()
    for d in sorted(deadlines):
        for p in range(0, npos + 1, stride):
            run = make()
            run.inject = {p: [("advance", d)]}
            run.run()
            yield ("time", d, p), run


def sequential_decide(run, en):
    """One caller at a time: the next one arrives only when nobody is in flight."""
    live = run.live()
    for kind in ("gate", "op"):
        for st in en:
            if st[0] == kind:
                return st
    if not live:
        for st in en:
            if st[0] == "start":
                return st
    for st in en:
        if st[0] == "tick":
            return st
    for st in en:
        if st[0] == "start":
            return st
    return None



def hold_variants(make, decide0=None, kinds=("write", "read"), max_ops=60):
    """One execution per network operation k of the default schedule: operation k is HELD (left pending -
    the write lock / read lock its task owns stays taken) for as long as anything else can happen;
    everything else follows the default schedule.  Reaches "while X's write is in progress, Y queues a
    frame and Z comes and goes" without searching for it."""
    decide0 = decide0 or default_decide
    base = make()
    base.run(decide0)
    ops = [op.seq for op in base.net.ops if op.kind in kinds and op.state == "done"][:max_ops]
    base.finish()
    for k in ops:
        run = make()

        def decide(r, en, k=k):
            rest = [s for s in en if not (s[0] == "op" and s[1] == k)]
            st = decide0(r, rest) if rest else None
            if st is None or st[0] == "tick":
                held = [s for s in en if s[0] == "op" and s[1] == k]
                if held:
                    return held[0]
            return st

        run.run(decide)
        yield ("hold", k), run
