"""C08 - the synchronous pool shared by threads.

   1. TLC model-checks Pool in THREAD mode (cfg.threads: every pool-lock section, connection
      lock section and network operation is its own step) for all pool invariants plus
      NoCollateral and Progress (no lost wake-up) on the intended design, and confirms that the
      named deviation ActivateEvicted breaks NoCollateral (vacuity guard);
   2. the real httpcore.ConnectionPool is run by real threads under a controlled scheduler
      (harness/tsched.py: pre-emption at every lock operation, Event wait and network operation;
      optionally at source lines of httpcore/_sync/*.py), over systematic (pre-emption bounded),
      PCT and random schedules;
   3. TLC validates every recorded execution against PoolTrace (thread mode);
   4. canaries; rejected traces are explained by a named deviation (known finding) or reported."""
from __future__ import annotations

import copy
import hashlib
import itertools
import json
import random
import time

from . import pooltrace, tlc
from .check_pool import ALL_INV, PoolRunner, mc_cfg, stimulus_class
from .checklib import Check, seed
from .driver import Call
from .pool_scenarios import A, B, c, no_keepalive, world_h1
from .tsched import ThreadRun, coarse_trace

C = "http://c.test"


class TScenario:
    def __init__(self, sid, pool_kwargs, calls, warm=(), world=None, enc=None, coarse_only=False):
        self.id = sid
        self.pool_kwargs = pool_kwargs
        self.calls = calls
        self.warm = list(warm)  # these calls run to completion, one after the other, before the rest starts
        self.enc = {"nokeep": [x["name"] for x in calls if no_keepalive(x["url"])]}
        self.enc.update(enc or {})
        self.world = world or world_h1
        self.coarse_only = coarse_only  # judged by the ThreadCoarse monitor at every grain

    def make(self, choose, preempt=None):
        run = ThreadRun(self.pool_kwargs, [Call(**x) for x in self.calls], world=self.world(), choose=choose, preempt_lines=preempt is not None)
        run.sched.preempt = preempt
        run.scenario_id = self.id
        return run

    def spec(self):
        return {"id": self.id, "pool": self.pool_kwargs, "calls": self.calls, "warm": self.warm}


SCEN = {
    s.id: s
    for s in [
        TScenario("th-max1-AB", dict(max_connections=1), [c("r1", A + "/1"), c("r2", B + "/2")]),
        TScenario("th-max1-AAB", dict(max_connections=1), [c("r1", A + "/1"), c("r2", A + "/2"), c("r3", B + "/3")]),
        TScenario("th-max1-wAAB", dict(max_connections=1), [c("r1", A + "/1"), c("r2", A + "/2"), c("r3", B + "/3")], warm=["r1"]),
        TScenario("th-max1-wABA-keep0", dict(max_connections=1, max_keepalive_connections=0), [c("r1", A + "/1"), c("r2", B + "/2"), c("r3", A + "/3")], warm=["r1"]),
        TScenario("th-max2-ABA-keep1", dict(max_connections=2, max_keepalive_connections=1), [c("r1", A + "/1"), c("r2", B + "/2"), c("r3", A + "/3")]),
        TScenario("th-max2-wAABC", dict(max_connections=2), [c("r1", A + "/1"), c("r2", A + "/2"), c("r3", B + "/3"), c("r4", C + "/4")], warm=["r1"]),
        TScenario("th-max2-AAAA", dict(max_connections=2), [c("r1", A + "/1"), c("r2", A + "/2"), c("r3", A + "/3"), c("r4", A + "/4")]),
        TScenario("th-max1-close-AA", dict(max_connections=1), [c("r1", A + "/close1"), c("r2", A + "/2")]),
        TScenario("th-max1-abandon-AA", dict(max_connections=1), [c("r1", A + "/big1", consume="none"), c("r2", A + "/2")]),
        TScenario("th-max2-wwABAB", dict(max_connections=2, max_keepalive_connections=1), [c("r1", A + "/1"), c("r2", B + "/2"), c("r3", A + "/3"), c("r4", B + "/4")], warm=["r1", "r2"]),
    ]
}

# scenarios on which EVERY single line-level pre-emption is enumerated (the thread that reaches source line
# number k of httpcore/_sync/*.py is overtaken there by the other one, which then runs until it blocks)
SCEN["th-max1-wAAA"] = TScenario("th-max1-wAAA", dict(max_connections=1), [c("r1", A + "/1"), c("r2", A + "/2"), c("r3", A + "/3")], warm=["r1"])
LINE_SYSTEMATIC = ["th-max1-wAAA"]
# threads MULTIPLEXED on one warm HTTP/2 connection (the shared reader under the read lock, the write lock,
# the stream semaphore); judged by the ThreadCoarse monitor: own response, nothing fails, nobody hangs
from .pool_scenarios import H2 as _H2, world_h2 as _world_h2

SCEN["th-h2-wAAA"] = TScenario("th-h2-wAAA", dict(max_connections=1, **_H2), [c("r1", A + "/1"), c("r2", A + "/2"), c("r3", A + "/3")], warm=["r1"], world=_world_h2, coarse_only=True)
SCEN["th-h2-wAAAA"] = TScenario("th-h2-wAAAA", dict(max_connections=1, **_H2), [c("r1", A + "/1"), c("r2", A + "/2"), c("r3", A + "/3"), c("r4", A + "/4")], warm=["r1"], world=_world_h2, coarse_only=True)

QUICK = ["th-max1-AB", "th-max1-AAB", "th-max1-wAAB", "th-max2-ABA-keep1", "th-max1-close-AA", "th-max2-wAABC", "th-max1-wAAA", "th-h2-wAAA"]
THOROUGH = list(SCEN)


# ---------------------------------------------------------------------------
# schedules
# ---------------------------------------------------------------------------
def with_warm(scen, inner):
    """Run the warm-up calls alone, in order; then hand over to `inner`."""
    warm = list(scen.warm)

    def choose(s, runnable):
        for w in warm:
            if not s.threads[w].done:
                if w in runnable:
                    return w
                break
        rest = [n for n in runnable if n not in warm] or runnable
        return inner(s, rest)

    return choose


def sticky(s, runnable):
    """Default policy: keep running the thread that ran last; otherwise the first runnable."""
    last = s.choices[-1] if s.choices else None
    return last if last in runnable else runnable[0]


def preemptions(plan):
    """plan: {decision index (counted after the warm-up) -> rank among the OTHER runnable threads}"""
    state = {"i": 0}

    def choose(s, runnable):
        i = state["i"]
        state["i"] += 1
        d = sticky(s, runnable)
        if i in plan:
            others = [n for n in runnable if n != d]
            if others:
                return others[plan[i] % len(others)]
        return d

    return choose, state


def pct(rng, names, depth, horizon):
    """Probabilistic concurrency testing: random priorities, `depth`-1 priority change points."""
    prio = {n: rng.random() + 1 for n in names}
    points = sorted(rng.randrange(horizon) for _ in range(depth - 1))
    state = {"i": 0}

    def choose(s, runnable):
        i = state["i"]
        state["i"] += 1
        n = max(runnable, key=lambda x: prio[x])
        if points and i >= points[0]:
            points.pop(0)
            prio[n] = rng.random()  # drop below everybody else
            n = max(runnable, key=lambda x: prio[x])
        return n

    return choose


class ThreadRunner(PoolRunner):
    MC = [
        ("CfgsTh1", dict(faults=0, maxclock=0, styles="NoStyles")),
        ("CfgsTh2", dict(faults=0, maxclock=0, styles="NoStyles")),
    ]
    INV = ALL_INV + ["NoCollateral"]
    PROPS = ["PassImplementsRel", "RetryOnlyUnsent"]

    def model_check(self):
        states = trans = 0
        runs = []
        for cfgs, kw in self.MC:
            res = tlc.model_check("MCPool", mc_cfg(cfgs, self.INV, self.PROPS, **kw), tag="mcth")
            runs.append({"cfgs": cfgs, "mode": "threads", "distinct": res["distinct"], "generated": res["states"], "ok": res["ok"], "wall_s": round(res["wall_s"], 1)})
            if not res["ok"]:
                raise tlc.MachineryError(f"the specification (thread mode) violates its own property in instance {cfgs}:\n" + "\n".join(res["errors"][:5]))
            states += res["distinct"]
            trans += res["states"]
        res = tlc.model_check(
            "MCPool",
            mc_cfg("CfgsThL", [], ["Progress"], req="R2", conn="C4", faults=0, maxclock=0, abandons="FALSE", styles="NoStyles", spec="FairSpec"),
            tag="thlive",
        )
        runs.append({"cfgs": "CfgsThL", "mode": "threads", "liveness": "Progress", "distinct": res["distinct"], "ok": res["ok"]})
        if not res["ok"]:
            raise tlc.MachineryError("liveness (Progress, thread mode) fails on the model:\n" + "\n".join(res["errors"][:5]))
        states += res["distinct"]
        trans += res["states"]
        vac = []
        res = tlc.model_check("MCPool", mc_cfg("CfgsTh1", ["NoCollateral"], [], faults=0, maxclock=0, styles="NoStyles", dev="DevActEv"), tag="vacth")
        hit = [e for e in res["errors"] if "NoCollateral" in e]
        vac.append({"deviation": "DevActEv", "expected": "NoCollateral", "found": bool(hit), "steps": len(res["behaviour"])})
        if not hit:
            raise tlc.MachineryError("vacuity guard: deviation ActivateEvicted does not violate NoCollateral")
        cov = self.chk.coverage
        cov["states"] = states
        cov["transitions"] = trans
        cov["model_runs"] = runs
        cov["vacuity_guards"] = vac

    def one(self, scen, label, choose, preempt=None):
        run = scen.make(with_warm(scen, choose), preempt)
        run.run()
        run.decisions = [(n,) for n in run.sched.choices]
        if run.internal_errors:
            self.internal.append((scen.id, label, run.internal_errors))
        if preempt is None and not scen.coarse_only:
            self.add(scen, label, run)
        else:
            self.add_coarse(scen, label, run)
        return run

    def add(self, scen, label, run, extra=None):
        """As PoolRunner.add; in addition an execution that shows the evict || activate race (a
        connection is activated while it is outside the pool - KF09) is CUT right after that
        quantum: what the racing threads do to each other afterwards (collateral failures, a closed
        connection marked idle again, ...) is one defect, not a catalogue to be modelled."""
        self.evaluations += 1
        try:
            tr = pooltrace.Encoder(run, **scen.enc).encode()
        finally:
            meta = {
                "scenario": scen.id,
                "label": list(label),
                "decisions": "".join(n[-1] for n in run.sched.choices),
                "stimuli": stimulus_class(label, run),
                "outcomes": {n: (o.get("result"), o.get("exc")) for n, o in run.outcome.items()},
                "script": extra,
            }
            run.finish()
        tr, cut = self.cut_after_race(tr)
        if cut:
            meta["cut_after_race_at"] = cut
        key = hashlib.sha1(json.dumps(tr, sort_keys=True).encode()).hexdigest()
        if key in self.seen:
            self.seen[key]["dups"] += 1
            return
        item = {"scen": scen, "label": label, "trace": tr, "meta": meta, "dups": 0}
        self.seen[key] = item
        self.items.append(item)

    @staticmethod
    def cut_after_race(tr):
        last = {}
        for i, e in enumerate(tr["ev"]):
            o = e["obs"]
            pooled = set(o["pool"])
            raced = False
            for c, cs in enumerate(o["cs"], 1):
                prev = last.get(c)
                if c not in pooled and cs["st"] == "active" and prev is not None and (prev["st"] != "active" or cs["cnt"] > prev["cnt"]):
                    raced = True
                last[c] = cs
            if raced:
                return dict(tr, ev=tr["ev"][: i + 1]), i + 1
        return tr, 0

    def add_coarse(self, scen, label, run):
        self.evaluations += 1
        try:
            tr = coarse_trace(run)
        finally:
            meta = {
                "scenario": scen.id,
                "label": list(label),
                "decisions": "".join(n[-1] for n in run.sched.choices),
                "stimuli": stimulus_class(label, run),
                "outcomes": {n: (o.get("result"), o.get("exc"), o.get("msg")) for n, o in run.outcome.items()},
                "internal_errors": run.internal_errors,
            }
            run.finish()
        key = hashlib.sha1(json.dumps(tr, sort_keys=True).encode()).hexdigest()
        if key in self.cseen:
            return
        self.cseen.add(key)
        self.coarse.append({"scen": scen, "label": label, "trace": tr, "meta": meta})

    COARSE_CFG = """SPECIFICATION TSpec
CONSTANTS
  DevChoices <- Choices
  MaxC = 12
CONSTRAINT Mark
POSTCONDITION Post
CHECK_DEADLOCK FALSE
"""

    def judge_coarse(self):
        if not self.coarse:
            return
        res, stats = tlc.validate_traces("MCThreadCoarse", self.COARSE_CFG, [it["trace"] for it in self.coarse], nd=3)
        accepted = []
        nrej = 0
        for it, row in zip(self.coarse, res):
            (v0, l0), (v1, l1), (v2, l2) = row
            if v0 == "ACCEPT":
                accepted.append(it)
                continue
            nrej += 1
            ev = it["trace"]["ev"]
            at = ev[l0 - 1] if 0 < l0 <= len(ev) else {}
            what = (
                f"line-grain execution rejected by ThreadCoarse at event {l0} of {len(ev)} ({at.get('e')}: "
                f"{ {k: v for k, v in at.items() if k not in ('cs',)} }) (scenario {it['scen'].id}, {it['label']}); "
                f"with deviation ActivateEvicted: {v1} at {l1}"
            )
            replay = {"scenario": it["scen"].spec(), "meta": it["meta"], "verdict": [v0, l0], "with_ActivateEvicted": [v1, l1], "trace": it["trace"]}
            if v1 == "ACCEPT":
                self.chk.classify({"module": "Pool", "deviation": ["ActivateEvicted"], "stimulus": it["meta"]["stimuli"]}, what, replay)
            elif v2 == "ACCEPT":
                self.chk.classify({"module": "ThreadCoarse", "deviation": ["MuxStreamIdRace"], "stimulus": it["meta"]["stimuli"]}, what + "; with deviation MuxStreamIdRace: ACCEPT", replay)
            else:
                self.chk.classify({"module": "ThreadCoarse", "deviation": ["<none>"], "stimulus": it["meta"]["stimuli"], "clause": [str(at.get("e"))]}, what, replay)
        # canaries: the monitor binds
        base = next((it["trace"] for it in accepted if len(it["trace"]["ev"]) >= 10), None)
        if base is None:
            raise tlc.MachineryError("no accepted line-grain execution for the canaries")
        bad = []
        t = copy.deepcopy(base)
        next(e for e in t["ev"] if e["e"] == "Ret")["out"] = "internal"
        bad.append(("internal-error", t))
        t = copy.deepcopy(base)
        next(e for e in t["ev"] if e["e"] == "Got")["tokok"] = False
        bad.append(("cross-talk", t))
        t = copy.deepcopy(base)
        t["ev"][-1]["live"] = [1]
        bad.append(("hang", t))
        t = copy.deepcopy(base)
        o = [e for e in t["ev"] if e["e"] == "Obs"][-1]
        n = len(o["cs"])
        o["cs"] = o["cs"] + [{"st": "connecting", "cnt": 0}] * t["cfg"]["maxConn"]
        o["pool"] = o["pool"] + list(range(n + 1, n + 1 + t["cfg"]["maxConn"]))
        bad.append(("over-limit", t))
        t = copy.deepcopy(base)
        t["ev"][-1]["open"] = t["ev"][-1]["open"] + [11]
        bad.append(("leaked-stream", t))
        cres, _ = tlc.validate_traces("MCThreadCoarse", self.COARSE_CFG, [x for _, x in bad], nd=3, shards=1)
        can = {}
        for (name, _), row in zip(bad, cres):
            can[name] = row[1][0]
            if any(r_[0] == "ACCEPT" for r_ in row):
                raise tlc.MachineryError(f"coarse canary '{name}' was ACCEPTED: ThreadCoarse does not bind")
        cov = self.chk.coverage
        cov["line_grain"] = {
            "executions_distinct": len(self.coarse),
            "accepted": len(accepted),
            "rejected": nrej,
            "trace_states": stats.get("distinct", 0),
            "canaries": can,
            "judge": "spec/ThreadCoarse.tla (monitor: Own, Once, Limit, NoFail, NoHang, Rest)",
        }

    def explore(self):
        self.internal = []
        self.coarse = []
        self.cseen = set()
        quick = self.tier == "quick"
        names = QUICK if quick else THOROUGH
        for name in names:
            scen = SCEN[name]
            # run-to-completion in every thread order
            for perm in itertools.permutations([x["name"] for x in scen.calls if x["name"] not in scen.warm]):
                order = list(perm)
                self.one(scen, ("serial",) + perm, lambda s, r, order=order: next((n for n in order if n in r), r[0]))
            # round robin
            self.one(scen, ("round-robin",), lambda s, r: min(r, key=lambda n: (sum(1 for x in s.choices[-len(s.threads):] if x == n), n)))
            # pre-emption bounded: every single pre-emption, and pairs (sampled in the quick tier)
            base = self.one(scen, ("sticky",), sticky)
            horizon = len(base.sched.choices)
            nthreads = len(scen.calls)
            singles = [(i, k) for i in range(horizon) for k in range(max(1, nthreads - 1))]
            for i, k in singles:
                ch, _ = preemptions({i: k})
                self.one(scen, ("preempt", i, k), ch)
            pairs = [(a, b) for a in singles for b in singles if a[0] < b[0]]
            self.rng.shuffle(pairs)
            for (i, k), (j, m) in pairs[: (60 if quick else 3000)]:
                ch, _ = preemptions({i: k, j: m})
                self.one(scen, ("preempt2", i, k, j, m), ch)
            # PCT, depth 2..4
            for n in range(40 if quick else 600):
                s = self.rng.randrange(1 << 30)
                rng = random.Random(s)
                d = 2 + n % 3
                self.one(scen, ("pct", d, s), pct(rng, [x["name"] for x in scen.calls], d, horizon))
            # uniform random
            for n in range(40 if quick else 600):
                s = self.rng.randrange(1 << 30)
                rng = random.Random(s)
                self.one(scen, ("random", s), lambda sc, r, rng=rng: rng.choice(r))
            # line-level pre-emption inside httpcore/_sync/*.py
            if name in LINE_SYSTEMATIC:
                pre, ch, st = line_preempt_at(-1)
                probe = self.one(scen, ("line-count",), ch, preempt=pre)
                total = st["n"]
                for k in range(1, total + 1):
                    pre, ch, _ = line_preempt_at(k)
                    self.one(scen, ("line-at", k), ch, preempt=pre)
                pre, ch, st = line_preempt_at(-1, base=round_robin)
                self.one(scen, ("line-count-rr",), ch, preempt=pre)
                total_rr = st["n"]
                for k in range(1, total_rr + 1):
                    pre, ch, _ = line_preempt_at(k, base=round_robin)
                    self.one(scen, ("line-at-rr", k), ch, preempt=pre)
                self.chk.coverage.setdefault("line_systematic", {})[name] = {"traced_lines": total, "executions": total + total_rr, "base_policies": ["sticky", "round-robin"]}
            for n in range(30 if quick else 500):
                s = self.rng.randrange(1 << 30)
                rng = random.Random(s)
                p = rng.choice([0.02, 0.05, 0.15])
                self.one(scen, ("lines", p, s), lambda sc, r, rng=rng: rng.choice(r), preempt=lambda sc, rng=rng, p=p: rng.random() < p)


def round_robin(s, r):
    return min(r, key=lambda n: (sum(1 for x in s.choices[-len(s.threads):] if x == n), n))


def line_preempt_at(k, base=None):
    """(preempt, choose): the thread that executes the k-th traced source line is pre-empted right there, and
    another runnable thread is chosen once; everything else is the base policy (sticky, or round robin: the
    threads alternate at every lock / network operation, so that one of them is WAITING while the other works)."""
    base = base or sticky
    state = {"n": 0, "fire": False}

    def pre(sc):
        state["n"] += 1
        if state["n"] == k:
            state["fire"] = True
            return True
        return False

    def choose(s, runnable):
        if state["fire"]:
            state["fire"] = False
            last = s.choices[-1] if s.choices else None
            others = [n for n in runnable if n != last]
            state["fired"] = True
            if others:
                return others[0]
        # (after the pre-emption the thread that overtook runs on until it blocks: sticky)
        return (sticky if state.get("fired") else base)(s, runnable)

    return pre, choose, state


def run(prop, tier):
    chk = Check(prop, tier, "model_checking")
    tlc.sany("MCPool.tla")
    tlc.sany("MCPoolTrace.tla")
    r = ThreadRunner(chk, {}, tier)
    ph = {}
    t = time.time()
    r.model_check()
    ph["model_check"] = round(time.time() - t, 1)
    t = time.time()
    r.explore()
    ph["execute"] = round(time.time() - t, 1)
    t = time.time()
    r.judge()
    r.judge_coarse()
    ph["validate+diagnose"] = round(time.time() - t, 1)
    cov = chk.coverage
    cov["phase_s"] = ph
    cov["rule"] = (
        "one evaluation = one execution of the real httpcore.ConnectionPool by real threads under the controlled scheduler; "
        "distinct = distinct encoded abstract traces (sha1 of the TLC input); non-trivial = at least 5 logged quanta"
    )
    cov["internal_errors_seen"] = len(r.internal)
    cov["trusted_base"] = [
        "TLC 1.8.0",
        "harness/tsched.py (baton-passing scheduler; httpcore._synchronization.threading replaced at run time by scheduler-aware Lock/Event/Semaphore)",
        "harness/simnet.py (simulated network)",
        "projection through public API (info(), is_*(), repr(pool))",
    ]
    chk.assumptions += [
        "well-behaved HTTP/1.1 servers, nothing injected: any failing network operation is collateral damage",
        "2..4 threads, one request each, max_connections in {1,2}, keep-alive limit in {0,1,unset}",
        "pre-emption points: every lock acquire/release, Event.wait, network operation; in the 'lines' schedules also random source lines of httpcore/_sync/*.py (observations are taken only while the pool lock is free)",
    ]
    return chk.finish()
