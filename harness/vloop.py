"""Virtual-time, single-step asyncio event loop.

The driver owns time (`loop.vt`) and runs ready callbacks ONE AT A TIME, in asyncio's own
FIFO order, so that one `step()` is exactly one atomic block of the program under test
(one Task.__step between two suspension points).  Only genuinely nondeterministic things
(I/O completion, cancellation, time) are choices of the driver; everything else is what a
real event loop would do.  anyio runs on it unchanged (sniffio sees asyncio).
"""
from __future__ import annotations

import asyncio
import heapq
import selectors
import sys
import threading
import time as _time
import types


class _NullSelector(selectors.BaseSelector):
    def __init__(self):
        self._map = {}

    def register(self, fileobj, events, data=None):
        key = selectors.SelectorKey(fileobj, 0, events, data)
        self._map[id(fileobj)] = key
        return key

    def unregister(self, fileobj):
        return self._map.pop(id(fileobj), None)

    def modify(self, fileobj, events, data=None):
        self.unregister(fileobj)
        return self.register(fileobj, events, data)

    def select(self, timeout=None):
        return []

    def get_map(self):
        return {}

    def close(self):
        self._map.clear()


class VLoop(asyncio.SelectorEventLoop):
    def __init__(self):
        super().__init__(selector=_NullSelector())
        self.vt = 0.0
        self._entered = False
        self.steps = 0

    # -- time ---------------------------------------------------------------
    def time(self):
        return self.vt

    # -- driving ------------------------------------------------------------
    def enter(self):
        if not self._entered:
            asyncio.events._set_running_loop(self)
            self._thread_id = threading.get_ident()
            self._entered = True

    def leave(self):
        if self._entered:
            asyncio.events._set_running_loop(None)
            self._thread_id = None
            self._entered = False

    def _move_due_timers(self):
        sched = self._scheduled
        while sched and (sched[0]._cancelled or sched[0]._when <= self.vt):
            h = heapq.heappop(sched)
            h._scheduled = False
            if h._cancelled:
                # asyncio keeps a count of cancelled timers for lazy clean-up
                if getattr(self, "_timer_cancelled_count", 0) > 0:
                    self._timer_cancelled_count -= 1
                continue
            self._ready.append(h)

    def has_ready(self):
        self._move_due_timers()
        while self._ready and self._ready[0]._cancelled:
            self._ready.popleft()
        return bool(self._ready)

    def step(self):
        """Run exactly one ready callback. Returns the asyncio.Task it belongs to
        (or None for a plain callback), or False if nothing was ready."""
        self.enter()
        if not self.has_ready():
            return False
        h = self._ready.popleft()
        cb = getattr(h, "_callback", None)
        owner = getattr(cb, "__self__", None)
        task = owner if isinstance(owner, asyncio.Task) else None
        self.steps += 1
        h._run()
        h = None
        return task if task is not None else None

    def next_timer(self):
        """Virtual time of the earliest live timer, or None."""
        live = [h._when for h in self._scheduled if not h._cancelled]
        return min(live) if live else None

    def advance_to(self, t):
        if t > self.vt:
            self.vt = t
        self._move_due_timers()

    def shutdown(self):
        self.leave()
        try:
            self.close()
        except Exception:
            pass


class VClock:
    """Stand-in for the `time` module inside httpcore modules (keep-alive expiry uses
    time.monotonic() through the module attribute)."""

    def __init__(self, now):
        self._now = now

    def monotonic(self):
        return self._now()

    def __getattr__(self, name):
        return getattr(_time, name)


def patch_httpcore_clock(now):
    """Replace the `time` attribute of every loaded httpcore module that imported the
    time module.  Returns an undo function.  (No file of /repo is touched.)"""
    shim = VClock(now)
    undo = []
    for name, mod in list(sys.modules.items()):
        if not (name == "httpcore" or name.startswith("httpcore.")) or mod is None:
            continue
        t = mod.__dict__.get("time")
        if isinstance(t, types.ModuleType) and t.__name__ == "time" or isinstance(t, VClock):
            undo.append((mod, t if not isinstance(t, VClock) else _time))
            mod.__dict__["time"] = shim

    def restore():
        for mod, t in undo:
            mod.__dict__["time"] = t

    return restore
