"""Reactive peers behind simulated streams.  They parse what the client wrote with code that
is independent of httpcore / h11 (hand-written HTTP/1.1 parser; hyperframe+hpack for HTTP/2
judging) and answer from a *response plan*, echoing a per-request token so that cross-talk is
observable."""
from __future__ import annotations

import re
import struct


class ParsedRequest:
    def __init__(self):
        self.method = None
        self.target = None
        self.version = None
        self.headers = []  # list of (name, value) as sent (value stripped of OWS)
        self.body = b""
        self.raw_head = b""
        self.framing = None  # "cl" | "chunked" | "none"
        self.chunks = []  # chunk sizes seen when chunked
        self.complete = False
        self.error = None

    def header(self, name, default=None):
        name = name.lower()
        for k, v in self.headers:
            if k.lower() == name:
                return v
        return default

    @property
    def token(self):
        t = self.header(b"x-tok")
        if t is not None:
            return t
        return self.target

    def as_dict(self):
        return {
            "method": self.method,
            "target": self.target,
            "headers": self.headers,
            "body": self.body,
            "framing": self.framing,
            "complete": self.complete,
        }


def default_plan(req, idx):
    tok = req.token or b"?"
    return {"status": 200, "headers": [(b"X-Tok", tok)], "body": b"body-of-" + tok, "framing": "cl"}


def render_response(spec, req=None):
    """Turn a response plan into bytes. Returns (bytes, close_after)."""
    if spec.get("raw") is not None:
        return spec["raw"], bool(spec.get("close"))
    out = b""
    version = spec.get("version", b"HTTP/1.1")
    for st, hs in spec.get("interim", []):
        out += version + b" %d Interim\r\n" % st
        for k, v in hs:
            out += k + b": " + v + b"\r\n"
        out += b"\r\n"
    status = spec.get("status", 200)
    reason = spec.get("reason", b"OK")
    out += version + b" %d " % status + reason + b"\r\n"
    headers = list(spec.get("headers", []))
    body = spec.get("body", b"")
    framing = spec.get("framing", "cl")
    head_only = req is not None and req.method == b"HEAD"
    if framing == "cl":
        headers.append((b"Content-Length", b"%d" % len(body)))
    elif framing == "chunked":
        headers.append((b"Transfer-Encoding", b"chunked"))
    close = bool(spec.get("close")) or framing == "close"
    if spec.get("close") and not any(k.lower() == b"connection" for k, _ in headers):
        headers.append((b"Connection", b"close"))
    for k, v in headers:
        out += k + b": " + v + b"\r\n"
    out += b"\r\n"
    if not head_only and framing != "none":
        if framing == "chunked":
            sizes = spec.get("chunks")
            if sizes is None:
                sizes = [len(body)] if body else []
            pos = 0
            for n in sizes:
                out += b"%x\r\n" % n + body[pos : pos + n] + b"\r\n"
                pos += n
            out += b"0\r\n\r\n"
        else:
            out += body
    out += spec.get("tail", b"")
    trunc = spec.get("truncate_to")
    if trunc is not None:
        out = out[:trunc]
        close = True
    return out, close


class H11Peer:
    """HTTP/1.1 origin (or forward proxy) with an independent request parser."""

    def __init__(self, plan=None, h2=False, alpn=None):
        self.plan = plan or default_plan
        self.buf = b""
        self.cur = None
        self.requests = []  # completed ParsedRequest
        self.heads = []  # every request head seen (ParsedRequest, possibly incomplete body)
        self.state = "idle"  # idle | head | body  (what the peer is in the middle of receiving)
        self.closed = False
        self.responded = 0
        self.sent = b""
        self.alpn_choice = alpn
        self.raw_in = b""
        self.upgraded = False
        self.tls_seen = []
        self._need = 0
        self._chunk_state = None
        self.garbage = False
        self.bytes_after_close = 0
        self.client_closed = False

    # TLS negotiation hook
    def on_tls(self, sni, offer):
        self.tls_seen.append((sni, tuple(offer)))
        if self.alpn_choice is not None:
            return self.alpn_choice if self.alpn_choice in offer else None
        return "http/1.1" if "http/1.1" in offer else None

    def on_client_close(self):
        self.client_closed = True

    def feed(self, data: bytes) -> bytes:
        self.raw_in += data
        if self.closed:
            self.bytes_after_close += len(data)
            return b""
        if self.upgraded:
            return self.on_upgraded(data)
        self.buf += data
        out = b""
        while True:
            if self.cur is None:
                if not self.buf:
                    self.state = "idle"
                    break
                idx = self.buf.find(b"\r\n\r\n")
                if idx < 0:
                    self.state = "head"
                    break
                head, self.buf = self.buf[: idx + 4], self.buf[idx + 4 :]
                self.cur = self._parse_head(head)
                self.heads.append(self.cur)
                self.cur.answered_early = False
                if not self.cur.error and getattr(self, "early", None) is not None:
                    spec_e = self.early(self.cur)
                    if spec_e is not None:
                        data_e, close_e = render_response(spec_e, self.cur)
                        out += data_e
                        self.responded += 1
                        self.cur.answered_early = True
                        self.early_close = close_e
                if self.cur.error:
                    self.garbage = True
                    self.closed = True
                    return out + b"HTTP/1.1 400 Bad Request\r\nContent-Length: 0\r\nConnection: close\r\n\r\n"
            req = self.cur
            if not self._parse_body(req):
                self.state = "body"
                break
            req.complete = True
            self.requests.append(req)
            self.cur = None
            self.state = "idle"
            if getattr(req, "answered_early", False):
                if getattr(self, "early_close", False):
                    self.closed = True
                    break
                continue
            spec = self.plan(req, len(self.requests) - 1)
            if spec is None:
                continue  # no answer (peer stays silent)
            data_out, close = render_response(spec, req)
            out += data_out
            self.responded += 1
            if spec.get("upgrade") or (req.method == b"CONNECT" and 200 <= spec.get("status", 200) < 300):
                self.upgraded = True
                rest, self.buf = self.buf, b""
                if rest:
                    out += self.on_upgraded(rest)
                break
            if close:
                self.closed = True
                break
        self.sent += out
        return out

    def on_upgraded(self, data):
        return b""

    _tok = re.compile(rb"^[!#$%&'*+\-.^_`|~0-9A-Za-z]+$")

    def _parse_head(self, head):
        req = ParsedRequest()
        req.raw_head = head
        lines = head[:-4].split(b"\r\n")
        parts = lines[0].split(b" ")
        if len(parts) != 3:
            req.error = "request-line"
            return req
        req.method, req.target, req.version = parts
        for ln in lines[1:]:
            if b":" not in ln:
                req.error = "header-line"
                return req
            k, v = ln.split(b":", 1)
            if not self._tok.match(k):
                req.error = "header-name"
                return req
            req.headers.append((k, v.strip(b" \t")))
        te = req.header(b"transfer-encoding")
        cl = req.header(b"content-length")
        if te is not None and b"chunked" in te.lower():
            req.framing = "chunked"
            self._chunk_state = ["size", 0]
        elif cl is not None:
            req.framing = "cl"
            try:
                self._need = int(cl)
            except ValueError:
                req.error = "content-length"
        else:
            req.framing = "none"
        return req

    def _parse_body(self, req):
        if req.framing == "none":
            return True
        if req.framing == "cl":
            take = min(self._need, len(self.buf))
            req.body += self.buf[:take]
            self.buf = self.buf[take:]
            self._need -= take
            return self._need == 0
        # chunked
        st = self._chunk_state
        while True:
            if st[0] == "size":
                i = self.buf.find(b"\r\n")
                if i < 0:
                    return False
                line, self.buf = self.buf[:i], self.buf[i + 2 :]
                try:
                    n = int(line.split(b";")[0].strip(), 16)
                except ValueError:
                    req.error = "chunk-size"
                    n = 0
                req.chunks.append(n)
                if n == 0:
                    st[0] = "trailer"
                else:
                    st[0] = "data"
                    st[1] = n
            elif st[0] == "data":
                take = min(st[1], len(self.buf))
                req.body += self.buf[:take]
                self.buf = self.buf[take:]
                st[1] -= take
                if st[1] > 0:
                    return False
                st[0] = "crlf"
            elif st[0] == "crlf":
                if len(self.buf) < 2:
                    return False
                self.buf = self.buf[2:]
                st[0] = "size"
            elif st[0] == "trailer":
                i = self.buf.find(b"\r\n")
                if i < 0:
                    return False
                line, self.buf = self.buf[:i], self.buf[i + 2 :]
                if line == b"":
                    return True

    # what the reuse gate (C01) looks at
    def exchange_clean(self):
        """True iff the peer is not in the middle of a request and has answered all of them."""
        return self.cur is None and not self.buf and self.responded >= len(self.requests) and self.responded >= len(self.heads)


class TunnelPeer(H11Peer):
    """HTTP proxy: answers CONNECT from `connect_plan`, then hands the byte stream to an
    inner peer created by `inner_factory(host, port)`; ordinary (absolute-form) requests are
    answered like an origin (forward proxy)."""

    def __init__(self, inner_factory=None, connect_plan=None, plan=None, alpn=None):
        super().__init__(plan=self._plan, alpn=alpn)
        self.inner_factory = inner_factory or (lambda host, port: H11Peer())
        self.connect_plan = connect_plan or (lambda req: {"status": 200, "framing": "none", "reason": b"Connection established"})
        self.forward_plan = plan or default_plan
        self.inner = None
        self.connect_reqs = []
        self.proxy_tls = 0  # TLS layers terminated by the proxy itself

    def _plan(self, req, idx):
        if req.method == b"CONNECT":
            self.connect_reqs.append(req)
            spec = self.connect_plan(req)
            if 200 <= spec.get("status", 200) < 300:
                host, _, port = req.target.rpartition(b":")
                self.inner = self.inner_factory(host.decode("latin1"), int(port) if port.isdigit() else -1)
            return spec
        return self.forward_plan(req, idx)

    def on_tls(self, sni, offer):
        if self.inner is not None:
            return self.inner.on_tls(sni, offer)
        self.proxy_tls += 1
        return super().on_tls(sni, offer)

    def on_upgraded(self, data):
        if self.inner is None:
            return b""
        out = self.inner.feed(data)
        if getattr(self.inner, "closed", False):
            self.closed = True
        return out


class SocksPeer:
    """SOCKS5 server (RFC 1928/1929) with scripted replies, then an inner peer."""

    def __init__(self, inner_factory=None, method=None, auth_ok=True, reply=0, raw=None):
        self.inner_factory = inner_factory or (lambda host, port: H11Peer())
        self.method = method  # None: pick what the client offers
        self.auth_ok = auth_ok
        self.reply = reply
        self.raw = dict(raw or {})  # stage -> raw bytes to answer instead
        self.stage = "greet"
        self.buf = b""
        self.closed = False
        self.offered = None
        self.auth = None
        self.target = None
        self.inner = None
        self.raw_in = b""
        self.stages_in = []  # (stage, bytes)

    def on_tls(self, sni, offer):
        if self.inner is not None:
            return self.inner.on_tls(sni, offer)
        return None

    def feed(self, data):
        self.raw_in += data
        if self.stage == "tunnel":
            out = self.inner.feed(data)
            if getattr(self.inner, "closed", False):
                self.closed = True
            return out
        self.buf += data
        out = b""
        while True:
            if self.stage == "greet":
                if len(self.buf) < 2 or len(self.buf) < 2 + self.buf[1]:
                    break
                n = self.buf[1]
                self.offered = list(self.buf[2 : 2 + n])
                self.stages_in.append(("greet", self.buf[: 2 + n]))
                self.buf = self.buf[2 + n :]
                m = self.method if self.method is not None else (self.offered[0] if self.offered else 0xFF)
                if m == "unoffered":
                    # a method the client did NOT offer (a broken proxy, or somebody stripping the
                    # authentication): the peer then carries on as if that method had been agreed
                    m = 0 if 0 not in self.offered else 2
                out += self.raw.get("greet", bytes([5, m]))
                self.stage = "auth" if m == 2 else "connect"
                if m == 0xFF:
                    self.stage = "dead"
            elif self.stage == "auth":
                if len(self.buf) < 2:
                    break
                ul = self.buf[1]
                if len(self.buf) < 3 + ul:
                    break
                pl = self.buf[2 + ul]
                if len(self.buf) < 3 + ul + pl:
                    break
                self.auth = (self.buf[2 : 2 + ul], self.buf[3 + ul : 3 + ul + pl])
                self.stages_in.append(("auth", self.buf[: 3 + ul + pl]))
                self.buf = self.buf[3 + ul + pl :]
                out += self.raw.get("auth", bytes([1, 0 if self.auth_ok else 1]))
                self.stage = "connect" if self.auth_ok else "dead"
            elif self.stage == "connect":
                if len(self.buf) < 5:
                    break
                atyp = self.buf[3]
                if atyp == 1:
                    need = 4 + 4 + 2
                elif atyp == 4:
                    need = 4 + 16 + 2
                else:
                    need = 4 + 1 + self.buf[4] + 2
                if len(self.buf) < need:
                    break
                msg, self.buf = self.buf[:need], self.buf[need:]
                self.stages_in.append(("connect", msg))
                if atyp == 3:
                    host = msg[5 : 5 + msg[4]].decode("latin1")
                elif atyp == 1:
                    host = ".".join(str(b) for b in msg[4:8])
                else:
                    host = ":".join("%x" % struct.unpack(">H", msg[4 + i : 6 + i])[0] for i in range(0, 16, 2))
                port = struct.unpack(">H", msg[-2:])[0]
                self.target = (host, port, atyp, msg[1])
                out += self.raw.get("connect", bytes([5, self.reply, 0, 1, 0, 0, 0, 0, 0, 0]))
                if self.reply == 0 and "connect" not in self.raw:
                    self.inner = self.inner_factory(host, port)
                    self.stage = "tunnel"
                    if self.buf:
                        rest, self.buf = self.buf, b""
                        out += self.inner.feed(rest)
                else:
                    self.stage = "dead" if self.reply != 0 else "tunnel"
                    if self.stage == "tunnel":
                        self.inner = self.inner_factory(host, port)
            else:
                break
        return out


class H2Decoder:
    """Independent HTTP/2 reader (hyperframe + hpack, not the h2 state machine): splits the
    client's byte stream into frames and decodes header blocks."""

    PREFACE = b"PRI * HTTP/2.0\r\n\r\nSM\r\n\r\n"

    def __init__(self):
        import hpack

        self.buf = b""
        self.preface = False
        self.frames = []  # (type name, stream id, flags set, payload summary)
        self.headers = {}  # stream id -> list of (name, value)
        self.data = {}  # stream id -> bytes
        self.ended = set()
        self.dec = hpack.Decoder()
        self.dec.max_allowed_table_size = 1 << 16
        self._hb = {}  # stream id -> pending header block fragments
        self.error = None
        self.settings = []
        self.window_updates = []
        self.rst = []

    def feed(self, data):
        import hyperframe.frame as hf

        self.buf += data
        if not self.preface:
            if len(self.buf) < len(self.PREFACE):
                if not self.PREFACE.startswith(self.buf):
                    self.error = "bad preface"
                return []
            if not self.buf.startswith(self.PREFACE):
                self.error = "bad preface"
                return []
            self.preface = True
            self.buf = self.buf[len(self.PREFACE):]
        new = []
        while len(self.buf) >= 9:
            try:
                f, length = hf.Frame.parse_frame_header(memoryview(self.buf[:9]))
            except Exception as e:  # unknown frame type etc.
                self.error = "frame header: %r" % (e,)
                return new
            if len(self.buf) < 9 + length:
                break
            body = self.buf[9 : 9 + length]
            self.buf = self.buf[9 + length :]
            try:
                f.parse_body(memoryview(body))
            except Exception as e:
                self.error = "frame body: %r" % (e,)
                return new
            name = type(f).__name__.replace("Frame", "").upper()
            flags = set(f.flags)
            sid = f.stream_id
            self.frames.append((name, sid, flags, length))
            new.append(f)
            if name in ("HEADERS", "CONTINUATION"):
                self._hb.setdefault(sid, []).append(bytes(f.data))
                if "END_HEADERS" in flags:
                    block = b"".join(self._hb.pop(sid))
                    try:
                        hs = self.dec.decode(block, raw=True)
                    except Exception as e:
                        self.error = "hpack: %r" % (e,)
                        hs = []
                    self.headers.setdefault(sid, []).extend((bytes(k), bytes(v)) for k, v in hs)
                if "END_STREAM" in flags:
                    self.ended.add(sid)
            elif name == "DATA":
                self.data[sid] = self.data.get(sid, b"") + bytes(f.data)
                if "END_STREAM" in flags:
                    self.ended.add(sid)
            elif name == "SETTINGS":
                self.settings.append((dict(f.settings), "ACK" in flags))
            elif name == "WINDOWUPDATE":
                self.window_updates.append((sid, f.window_increment))
            elif name == "RSTSTREAM":
                self.rst.append((sid, f.error_code))
        return new

    def flat(self):
        """Everything readable the client sent, for marker searches."""
        out = b""
        for sid, hs in self.headers.items():
            for k, v in hs:
                out += k + b": " + v + b"\n"
        for sid, d in self.data.items():
            out += d
        return out


class H2ServerPeer:
    """HTTP/2 server behind a simulated stream.  Well-formed answers are produced with an `h2`
    server-side connection (HPACK state, frame layout); what the client sends is ALSO parsed by
    the independent H2Decoder for judging.  `plan(req)` -> response spec:
        status, headers, body, frames (DATA frame sizes), interim [(status, headers)],
        rst_after (send RST_STREAM after this many DATA frames), no_end (never end the stream)
    The answer to a request is emitted only when the request is complete (END_STREAM), as one
    blob whose internal offsets are recorded in `self.layout` (for segmentation cases)."""

    def __init__(self, plan=None, settings=None, auto=True):
        import h2.config
        import h2.connection

        self.plan = plan or (lambda req: {"status": 200, "headers": [(b"x-tok", req.token or b"?")], "body": b"body-of-" + (req.token or b"?")})
        self.conn = h2.connection.H2Connection(h2.config.H2Configuration(client_side=False, validate_inbound_headers=False, header_encoding=None))
        if settings:
            import h2.settings

            init = {
                h2.settings.SettingCodes.HEADER_TABLE_SIZE: 4096,
                h2.settings.SettingCodes.INITIAL_WINDOW_SIZE: 65535,
                h2.settings.SettingCodes.MAX_FRAME_SIZE: 16384,
                h2.settings.SettingCodes.MAX_CONCURRENT_STREAMS: 100,
                h2.settings.SettingCodes.MAX_HEADER_LIST_SIZE: 65536,
            }
            settings = dict(settings)
            # INITIAL_WINDOW_SIZE binds the client only once it has ACKNOWLEDGED the SETTINGS frame; values
            # given to the h2 library at construction are enforced at once, which would make this server
            # reject a client that legitimately still uses the default window.  It is therefore sent in a
            # second SETTINGS frame right behind the first one (pending until acknowledged).
            self.late_settings = {}
            if h2.settings.SettingCodes.INITIAL_WINDOW_SIZE in settings:
                self.late_settings[h2.settings.SettingCodes.INITIAL_WINDOW_SIZE] = settings.pop(h2.settings.SettingCodes.INITIAL_WINDOW_SIZE)
            init.update(settings)
            self.conn.local_settings = h2.settings.Settings(client=False, initial_values=init)
        self.started = False
        self.dec = H2Decoder()
        self.closed = False
        self.requests = []  # ParsedRequest per completed request
        self.heads = []
        self.by_stream = {}
        self.layout = {}  # stream id -> dict(offsets)
        self.sent = 0
        self.raw_in = b""
        self.errors = []
        self.auto = auto
        self.open_streams = set()
        self.max_open = 0
        self.events_log = []

    def on_tls(self, sni, offer):
        return "h2" if "h2" in offer else None

    def _flush(self):
        d = self.conn.data_to_send()
        self.sent += len(d)
        return d

    def feed(self, data):
        import h2.events
        import h2.exceptions

        self.raw_in += data
        self.dec.feed(data)
        out = b""
        if not self.started:
            self.started = True
            self.conn.initiate_connection()
            if getattr(self, "late_settings", None):
                self.conn.update_settings(self.late_settings)
            out += self._flush()
        self._tolerate_empty_frames()
        try:
            events = self.conn.receive_data(data)
        except h2.exceptions.ProtocolError as e:
            self.errors.append(repr(e))
            out += self._flush()
            self.closed = True
            return out
        for ev in events:
            self.events_log.append(type(ev).__name__)
            if isinstance(ev, h2.events.RequestReceived):
                req = ParsedRequest()
                hs = [(bytes(k), bytes(v)) for k, v in ev.headers]
                d = dict(hs)
                req.method = d.get(b":method")
                req.target = d.get(b":path")
                req.headers = hs
                req.framing = "h2"
                req.stream_id = ev.stream_id
                self.by_stream[ev.stream_id] = req
                self.heads.append(req)
                self.open_streams.add(ev.stream_id)
                self.max_open = max(self.max_open, len(self.open_streams))
            elif isinstance(ev, h2.events.DataReceived):
                r = self.by_stream.get(ev.stream_id)
                if r is not None:
                    r.body += ev.data
                if getattr(self, "auto_ack_data", True):
                    self.conn.acknowledge_received_data(ev.flow_controlled_length, ev.stream_id)
            elif isinstance(ev, h2.events.StreamEnded):
                r = self.by_stream.get(ev.stream_id)
                if r is not None:
                    r.complete = True
                    self.requests.append(r)
                    if self.auto:
                        out += self._flush()
                        out += self.respond(ev.stream_id)
            elif isinstance(ev, h2.events.StreamReset):
                self.open_streams.discard(ev.stream_id)
        out += self._flush()
        return out

    def _tolerate_empty_frames(self):
        """The h2 library cannot RECEIVE anything on a stream whose receive window its own SETTINGS have made
        negative (RFC 9113 6.9.2 allows that state, and 6.9.1 allows an empty DATA frame with END_STREAM in
        it): it answers FLOW_CONTROL_ERROR even to a zero-length frame.  The streams of THIS server connection
        (the instance, not the library) accept a zero-length frame; anything longer is judged as before."""
        if getattr(self, "_tolerant", False):
            return
        self._tolerant = True
        conn = self.conn
        orig = conn._begin_new_stream

        def begin(*a, **k):
            st = orig(*a, **k)
            wm = st._inbound_window_manager
            owc = wm.window_consumed

            def wc(size, owc=owc):
                if size == 0:
                    return None
                return owc(size)

            wm.window_consumed = wc
            return st

        conn._begin_new_stream = begin

    def respond(self, sid, spec=None):
        """Emit the planned response for stream `sid`; records frame end offsets."""
        req = self.by_stream[sid]
        spec = spec if spec is not None else self.plan(req)
        if spec is None:
            return b""
        out = b""
        base = self.sent
        lay = {"start": base, "data_ends": [], "interim_ends": []}
        for st, hs in spec.get("interim", []):
            self.conn.send_headers(sid, [(b":status", b"%d" % st)] + list(hs))
            out += self._flush()
            lay["interim_ends"].append(self.sent)
        body = spec.get("body", b"")
        frames = spec.get("frames")
        if frames is None:
            frames = [len(body)] if body else []
        no_body = not frames and not spec.get("no_end")
        self.conn.send_headers(sid, [(b":status", b"%d" % spec.get("status", 200))] + list(spec.get("headers", [])), end_stream=no_body)
        out += self._flush()
        lay["head_end"] = self.sent
        pos = 0
        rst_after = spec.get("rst_after")
        for i, n in enumerate(frames):
            if rst_after is not None and i >= rst_after:
                break
            last = i == len(frames) - 1 and not spec.get("no_end") and rst_after is None
            self.conn.send_data(sid, body[pos : pos + n], end_stream=last)
            pos += n
            out += self._flush()
            lay["data_ends"].append((n, self.sent))
        if rst_after is not None:
            self.conn.reset_stream(sid, error_code=spec.get("rst_code", 2))
            out += self._flush()
            lay["rst_end"] = self.sent
        lay["end"] = self.sent
        self.layout[sid] = lay
        if not spec.get("no_end") and rst_after is None or rst_after is not None:
            self.open_streams.discard(sid)
        return out

    def exchange_clean(self):
        return True
