"""C03 with spec/ReqWire.tla: every request shape is sent through the real pool (request API,
HTTP/1.1 and HTTP/2, first use and reuse of the connection, sync and async twin); the bytes
written are decoded by independent parsers (hand-written HTTP/1.1 parser; hyperframe + hpack)
and TLC judges them against ReqWire.Expected."""
from __future__ import annotations

import copy
import itertools
import random

import httpcore

from . import tlc
from .checklib import Check, seed
from .peers import H11Peer, H2ServerPeer
from .simnet import SimBackend, SimNet, World, WouldHang

OWN = {
    "none": [],
    "one": [(b"X-A", b"1")],
    "dupcase": [(b"X-A", b"1"), (b"x-a", b"2"), (b"X-A", b"3")],
    "three": [(b"B", b"1"), (b"X-A", b"2"), (b"C", b"3")],
}
CHUNKS = {"none": None, "bytes0": [0], "bytes5": [5], "iter23": [2, 3], "iter050": [0, 5, 0], "iterempty": []}


def valid(s):
    if s["cl"] and s["te"]:
        return False
    if s["bad"] in ("method", "hname", "hvalue", "target") and s["proto"] != "h11":
        return False
    if s["bad"] in ("h2te", "h2path") and s["proto"] != "h2":
        return False
    if s["bad"] == "h2path" and s["target"] != "ext":
        return False
    if s["te"] and not s["content"].startswith("iter"):
        return False
    if s["cl"] and s["content"] == "none":
        return False
    if s["content"] == "none" and s["method"] == "POST":
        return False
    return True


def all_shapes():
    dims = dict(
        method=["GET", "POST", "M-X"],
        target=["path", "pathquery", "ext", "star"],
        hl=list(OWN),
        host=["no", "first", "last"],
        cl=[False, True],
        te=[False, True],
        content=list(CHUNKS),
        bad=["none", "method", "hname", "hvalue", "target", "h2te", "h2path"],
        proto=["h11", "h2"],
    )
    keys = list(dims)
    for vals in itertools.product(*[dims[k] for k in keys]):
        s = dict(zip(keys, vals))
        if valid(s):
            yield s


def body_of(s):
    ch = CHUNKS[s["content"]]
    n = sum(ch) if ch else 0
    return bytes(64 + j for j in range(1, n + 1))


def build_args(s):
    method = s["method"]
    body = body_of(s)
    ch = CHUNKS[s["content"]]
    headers = list(OWN[s["hl"]])
    if s["cl"]:
        headers.append((b"Content-Length", b"%d" % len(body)))
    if s["te"]:
        headers.append((b"Transfer-Encoding", b"chunked"))
    if s["host"] == "first":
        headers.insert(0, (b"hOsT", b"given.test"))
    elif s["host"] == "last":
        headers.append((b"hOsT", b"given.test"))
    ext = {}
    if s["target"] == "path":
        url = "http://origin.test/p"
    elif s["target"] == "pathquery":
        url = "http://origin.test/p?q=1"
    elif s["target"] == "ext":
        url = "http://origin.test/ignored"
        ext["target"] = b"/from-extension"
    else:
        url = httpcore.URL(scheme=b"http", host=b"origin.test", port=None, target=b"*")
    if s["bad"] == "method":
        method = "GE T"
    elif s["bad"] == "hname":
        headers.append((b"X A", b"1"))
    elif s["bad"] == "hvalue":
        headers.append((b"X-Bad", b"a\nb"))
    elif s["bad"] == "target":
        ext["target"] = b"/a b"
    elif s["bad"] == "h2te":
        headers.append((b"X-Fresh-%d" % len(headers), b"v"))  # (a field the encoder has not indexed yet comes first)
        headers.append((b"TE", b"gzip"))
    elif s["bad"] == "h2path":
        ext["target"] = b""
    if s["content"] == "none":
        content = None
    elif s["content"].startswith("bytes"):
        content = body
    else:
        parts = []
        pos = 0
        for c in ch:
            parts.append(body[pos : pos + c])
            pos += c
        content = parts
    return method, url, headers, content, ext


def transmit_sync(s, times=2, seq=None, share=True):
    """seq: a history of shapes with the same given header list: the caller passes the SAME list
    object (and the same extensions dict) with every request."""
    peers = []
    shared = build_args(seq[0]) if seq else None
    if seq:
        s = seq[0]
        times = len(seq)

    def factory(rec):
        p = H2ServerPeer() if s["proto"] == "h2" else H11Peer()
        peers.append(p)
        return p

    net = SimNet(World(default=factory))
    kw = dict(network_backend=SimBackend(net), max_connections=1)
    if s["proto"] == "h2":
        kw.update(http1=False, http2=True)
    pool = httpcore.ConnectionPool(**kw)
    obs = []
    for k in range(times):
        method, url, headers, content, ext = build_args(seq[k] if seq else s)
        if seq and share:
            headers, ext = shared[2], shared[4]
        before = sum(len(w[0]) for r in net.streams for w in r.written)
        snap = h2_snapshot(peers)
        o = {}
        try:
            it = iter(content) if isinstance(content, list) else content
            resp = pool.request(method, url, headers=headers, content=it, extensions=ext)
            o["kind"] = "ok"
        except WouldHang:
            o["kind"] = "hang"
        except BaseException as e:  # noqa
            o["kind"] = type(e).__name__
        o["written"] = sum(len(w[0]) for r in net.streams for w in r.written) - before
        if o["kind"] == "ok":
            o.update(parsed(seq[k] if seq else s, peers, k))
        o["att"] = h2_attempts(peers, snap) if s["proto"] == "h2" else []
        obs.append(o)
        if o["kind"] != "ok" and not (seq and o["kind"] == "LocalProtocolError"):
            break
    o_streams = len(net.streams)
    return obs, o_streams


def transmit_async(s, times=2, seq=None, share=True):
    from .simnet import AsyncSimBackend
    from .vloop import VLoop

    shared = build_args(seq[0]) if seq else None
    if seq:
        s = seq[0]
        times = len(seq)

    loop = VLoop()
    loop.enter()
    peers = []

    def factory(rec):
        p = H2ServerPeer() if s["proto"] == "h2" else H11Peer()
        peers.append(p)
        return p

    net = SimNet(World(default=factory), current_task=lambda: "r1")
    kw = dict(network_backend=AsyncSimBackend(net), max_connections=1)
    if s["proto"] == "h2":
        kw.update(http1=False, http2=True)
    pool = httpcore.AsyncConnectionPool(**kw)
    obs = []

    async def aiter(parts):
        for p in parts:
            yield p

    async def main():
        for k in range(times):
            method, url, headers, content, ext = build_args(seq[k] if seq else s)
            if seq and share:
                headers, ext = shared[2], shared[4]
            before = sum(len(w[0]) for r in net.streams for w in r.written)
            snap = h2_snapshot(peers)
            o = {}
            try:
                it = aiter(content) if isinstance(content, list) else content
                await pool.request(method, url, headers=headers, content=it, extensions=ext)
                o["kind"] = "ok"
            except BaseException as e:  # noqa
                o["kind"] = type(e).__name__
            o["written"] = sum(len(w[0]) for r in net.streams for w in r.written) - before
            if o["kind"] == "ok":
                o.update(parsed(seq[k] if seq else s, peers, k))
            o["att"] = h2_attempts(peers, snap) if s["proto"] == "h2" else []
            obs.append(o)
            if o["kind"] != "ok" and not (seq and o["kind"] == "LocalProtocolError"):
                break

    t = loop.create_task(main())
    for _ in range(20000):
        while loop.step() is not False:
            pass
        if t.done():
            break
        ready = [op for op in net.pending if op.fut is not None and not op.fut.done() and net.ready(op)]
        if not ready:
            break
        op = ready[0]
        res = net.resolve(op)
        (op.fut.set_result if res[0] == "ok" else op.fut.set_exception)(res[1])
    if not t.done():
        obs.append({"kind": "hang", "written": 0})
        t.cancel()
        while loop.step() is not False:
            pass
    loop.shutdown()
    return obs, len(net.streams)


def h2_snapshot(peers):
    """The HEADERS frames seen so far, per connection (what the independent decoder has read)."""
    return [set(getattr(p, "dec", None).headers) if getattr(p, "dec", None) is not None else set() for p in peers]


def h2_attempts(peers, snap):
    """Every transmission attempt made since the snapshot: one record per NEW stream on any connection
    (old or new), as decoded by the independent reader - stream ids themselves are not judged."""
    out = []
    for i, p in enumerate(peers):
        dec = getattr(p, "dec", None)
        if dec is None:
            continue
        old = snap[i] if i < len(snap) else set()
        for sid in sorted(set(dec.headers) - old):
            frames = [f for f in dec.frames if f[1] == sid]
            out.append(
                {
                    "headers": [[a.decode("latin1"), b.decode("latin1")] for a, b in dec.headers.get(sid, [])],
                    "body": list(dec.data.get(sid, b"")),
                    "endOnHeaders": any(f[0] == "HEADERS" and "END_STREAM" in f[2] for f in frames),
                    "ended": sid in dec.ended,
                }
            )
    return out


def parsed(s, peers, k):
    """What the independent parser behind the (single) connection read for transmission k."""
    if not peers:
        return {"method": "", "target": "", "headers": [], "body": []}
    p = peers[0]
    if s["proto"] == "h11":
        if len(p.requests) <= k:
            return {"method": "", "target": "", "headers": [], "body": []}
        r = p.requests[k]
        return {
            "method": r.method.decode("latin1"),
            "target": r.target.decode("latin1"),
            "headers": [[a.decode("latin1"), b.decode("latin1")] for a, b in r.headers],
            "body": list(r.body),
        }
    dec = p.dec
    sid = 1 + 2 * k
    hs = dec.headers.get(sid, [])
    frames = [f for f in dec.frames if f[1] == sid]
    end_on_headers = any(f[0] == "HEADERS" and "END_STREAM" in f[2] for f in frames)
    return {
        "headers": [[a.decode("latin1"), b.decode("latin1")] for a, b in hs],
        "body": list(dec.data.get(sid, b"")),
        "endOnHeaders": end_on_headers,
        "ended": sid in dec.ended,
    }


def cfg():
    return "SPECIFICATION TSpec\nCONSTRAINT Mark\nPOSTCONDITION Post\nCHECK_DEADLOCK FALSE\n"


def validate(traces):
    res, stats = tlc.validate_traces("MCReqWireTrace", cfg(), traces, nd=1)
    return [r[0] for r in res], stats


def run(prop, tier):
    chk = Check(prop, tier, "model_checking")
    run_into(chk, prop, tier)
    return chk.finish()


def run_into(chk, prop, tier):
    rng = random.Random(seed())
    tlc.sany("MCReqWire.tla")
    tlc.sany("MCReqWireTrace.tla")
    res = tlc.model_check("MCReqWire", "SPECIFICATION Spec\nINVARIANT WellFormed\n", tag="mcRW")
    if not res["ok"]:
        raise tlc.MachineryError("ReqWire laws fail (a defect of the spec):\n" + "\n".join(res["errors"][:4]) + res["raw"][-1500:])
    chk.coverage["states"] = res["distinct"]
    chk.coverage["transitions"] = res["states"]
    chk.coverage["model_runs"] = [{"module": "MCReqWire", "shapes": res["distinct"], "laws": ["HostExactlyOnce", "FramingAtMostOnce", "BodyFramedIffPresent"]}]
    shapes = list(all_shapes())
    if tier == "quick":
        rng.shuffle(shapes)
        shapes = shapes[:2500]
    traces, metas = [], []
    evals = 0
    for idx, s in enumerate(shapes):
        mode = "sync" if (idx % 3) else "async"
        obs, nstreams = (transmit_sync if mode == "sync" else transmit_async)(s)
        evals += len(obs)
        for o in obs:
            o.setdefault("method", "")
            o.setdefault("target", "")
            o.setdefault("headers", [])
            o.setdefault("body", [])
            o.setdefault("endOnHeaders", False)
            o.setdefault("ended", False)
            o.setdefault("att", [])
        traces.append({"shape": s, "obs": obs})
        metas.append({"mode": mode, "streams": nstreams})
    # histories in which the caller re-uses its header-list object (and extensions dict) for requests
    # whose bodies differ: every transmission is judged against its own shape
    hist = []
    for s in all_shapes():
        if s["bad"] != "none" or s["cl"] or s["te"] or s["target"] not in ("path", "ext"):
            continue
        if s["content"] != "bytes5" or s["method"] != "POST":
            continue
        for other in ("bytes0", "iter23", "none", "iterempty"):
            s2 = dict(s, content=other, method="M-X" if other == "none" else s["method"])
            if valid(s2):
                hist.append([s, s2, s])
                hist.append([s2, s, s2])
    if tier == "quick":
        rng.shuffle(hist)
        hist = hist[:200]
    for idx, seq in enumerate(hist):
        mode = "sync" if (idx % 2) else "async"
        obs, nstreams = (transmit_sync if mode == "sync" else transmit_async)(None, seq=seq)
        evals += len(obs)
        for o in obs:
            for k_, d_ in (("method", ""), ("target", ""), ("headers", []), ("body", []), ("endOnHeaders", False), ("ended", False), ("att", [])):
                o.setdefault(k_, d_)
        traces.append({"shape": seq[0], "shapes": seq, "obs": obs})
        metas.append({"mode": mode, "streams": nstreams, "history": "shared header list object"})
    chk.coverage["shared_argument_histories"] = len(hist)
    # histories on ONE HTTP/2 connection in which a request with a head HTTP/2 cannot encode comes between
    # legal ones: it is rejected, nothing of it is written - and what is written for the NEXT request still
    # decodes to that request (the header compression state is shared by all requests of a connection)
    rej = []
    for s in all_shapes():
        if s["proto"] != "h2" or s["bad"] != "none" or s["cl"] or s["te"] or s["content"] not in ("none", "bytes5") or s["target"] not in ("path", "ext"):
            continue
        if s["method"] == "M-X":
            continue
        for bad in ("h2te", "h2path"):
            b = dict(s, bad=bad)
            if not valid(b):
                continue
            other = dict(s, hl={"none": "one", "one": "three", "dupcase": "one", "three": "dupcase"}[s["hl"]])
            rej.append([s, b, s])
            rej.append([s, other, b, other, s])
            rej.append([b, s])
    if tier == "quick":
        rng.shuffle(rej)
        rej = rej[:150]
    for idx, seq in enumerate(rej):
        mode = "sync" if (idx % 2) else "async"
        obs, nstreams = (transmit_sync if mode == "sync" else transmit_async)(None, seq=seq, share=False)
        evals += len(obs)
        for o in obs:
            for k_, d_ in (("method", ""), ("target", ""), ("headers", []), ("body", []), ("endOnHeaders", False), ("ended", False), ("att", [])):
                o.setdefault(k_, d_)
        traces.append({"shape": seq[0], "shapes": seq, "obs": obs})
        metas.append({"mode": mode, "streams": nstreams, "history": "a rejected head between legal requests on one HTTP/2 connection"})
    chk.coverage["rejected_head_histories"] = len(rej)
    verdicts, stats = validate(traces)
    rejected = [(t, m, v) for t, m, v in zip(traces, metas, verdicts) if v[0] != "ACCEPT"]
    accepted = [t for t, v in zip(traces, verdicts) if v[0] == "ACCEPT"]
    base = next(t for t in accepted if t["shape"]["proto"] == "h11" and t["obs"][0]["kind"] == "ok" and len(t["obs"][0]["body"]) >= 2 and len(t["obs"][0]["headers"]) >= 3)
    c1 = copy.deepcopy(base)
    c1["obs"][0]["body"] = c1["obs"][0]["body"][1:]
    c2 = copy.deepcopy(next(t for t in accepted if t["shape"]["proto"] == "h11" and t["shape"]["hl"] == "three" and t["obs"][0]["kind"] == "ok"))
    hs = c2["obs"][0]["headers"]
    i = next(j for j, h in enumerate(hs) if h[0] == "B")
    k = next(j for j, h in enumerate(hs) if h[0] == "C")
    hs[i], hs[k] = hs[k], hs[i]
    c3 = copy.deepcopy(next(t for t in accepted if t["obs"][0]["kind"] == "LocalProtocolError" and t["shape"]["proto"] == "h11"))
    c3["obs"][0]["written"] = 17
    cres, _ = validate([c1, c2, c3])
    can = {}
    for name, v in zip(["body-byte-dropped", "headers-reordered", "illegal-head-partly-written"], cres):
        can[name] = v[0]
        if v[0] == "ACCEPT":
            raise tlc.MachineryError(f"canary '{name}' was ACCEPTED: ReqWireTrace does not bind")
    for t, m, v in rejected:
        what = f"request on the wire rejected by ReqWireTrace at transmission {v[1]}: shape {(t.get('shapes') or [t['shape']] * 9)[min(v[1], len(t['obs'])) - 1]} ({m['mode']}{', ' + m['history'] if m.get('history') else ''}) parsed {t['obs'][min(v[1], len(t['obs'])) - 1]}"
        chk.classify({"module": "ReqWire", "deviation": ["<none>"], "stimulus": [t["shape"]["proto"]]}, what, {"trace": t, "meta": m, "verdict": list(v)})
    cov = chk.coverage
    cov["evaluations"] = evals
    cov["distinct_nontrivial"] = len(traces)
    cov["rule"] = "one evaluation = one transmission of a request shape through the real pool (first use, then reuse of the same connection); every shape is distinct"
    cov["traces_validated_against_impl"] = len(accepted)
    cov["traces_rejected"] = len(rejected)
    cov["canaries"] = can
    cov["exhaustive"] = tier == "thorough"
    cov["samples"] = [dict(shape=t["shape"], obs=t["obs"][:1]) for t in traces[:2] + traces[-1:]]
    cov["checker_cmd"] = "tlc -workers 1 -config <generated> MCReqWireTrace.tla (TRACE_FILE=<batch>.json), sharded"
    cov["trusted_base"] = ["TLC 1.8.0", "independent request parsers (harness/peers.py: hand-written HTTP/1.1; hyperframe+hpack for HTTP/2)"]
    chk.assumptions += [
        "header names / values, methods and targets are drawn from small token tables; the HTTP/2 part of 'cannot legally be encoded' is not judged (the statement fixes the rejection rule for the HTTP/1.1 head only)",
        "transparent re-sends (ConnectionNotAvailable after double assignment, GOAWAY refusal) are exercised by the pool / HTTP/2 checks, where the peers' parsers see every transmission",
    ]
