"""C16, exchange phase: the operation log of one call (kind, which configured timeout each
network operation was given), over response shapes that make the client read and write many
times - judged by spec/OpTimeouts.tla."""
from __future__ import annotations

import itertools

import httpcore

from . import tlc
from .peers import H11Peer, H2ServerPeer
from .simnet import FakeSSLContext, SimBackend, SimNet, World, WouldHang

TMO = {"connect": 3.0, "read": 5.0, "write": 7.0, "pool": 11.0}
NAME = {v: k for k, v in TMO.items()}
NAME[None] = "none"

H11_PLANS = {
    "cl": {"framing": "cl", "body": b"x" * 40},
    "chunked": {"framing": "chunked", "body": b"y" * 60, "chunks": [20, 20, 20]},
    "close": {"framing": "close", "body": b"z" * 30},
    "interim1": {"framing": "cl", "body": b"x" * 20, "interim": [(100, [])]},
    "interim2": {"framing": "chunked", "body": b"x" * 20, "chunks": [10, 10], "interim": [(102, []), (103, [(b"Link", b"</a>")])]},
    "empty": {"framing": "cl", "body": b""},
}
H2_PLANS = {
    "data": {"status": 200, "headers": [], "body": b"d" * 50, "frames": [20, 20, 10]},
    "interim": {"status": 200, "headers": [], "body": b"d" * 20, "frames": [20], "interim": [(103, [(b"link", b"</a>")])]},
    "empty": {"status": 204, "headers": [], "body": b"", "frames": []},
}
BODIES = {"none": None, "bytes": b"b" * 30, "parts": [b"p" * 10, b"q" * 10, b"r" * 10],
          # larger than the default HTTP/2 window (65,535): the upload stalls on flow control and the client
          # has to READ (for WINDOW_UPDATE) in the middle of it
          "big": b"B" * 70000, "bigparts": [b"P" * 40000, b"Q" * 40000]}


def cases(tier):
    out = []
    for tmo in (True, False):
        for proto, plans in (("h1", H11_PLANS), ("h2", H2_PLANS)):
            for pname in plans:
                for bname in BODIES:
                    for tls in (False, True):
                        for seg in (7, 1000):
                            for nreq in (1, 2):
                                if tier == "quick" and (tls and seg == 1000 or nreq == 2 and bname == "parts"):
                                    continue
                                if bname in ("big", "bigparts") and (proto != "h2" or pname != "data" or seg == 7 or tls or (tier == "quick" and nreq == 2)):
                                    continue
                                out.append({"tmo": tmo, "proto": proto, "plan": pname, "body": bname, "tls": tls, "seg": seg, "nreq": nreq})
                # the caller lets go of the response EARLY (after the head / after the first chunk of the body)
                if pname in ("data", "chunked", "cl"):
                    for consume in ("head", "first"):
                        out.append({"tmo": tmo, "proto": proto, "plan": pname, "body": "none", "tls": False, "seg": 7, "nreq": 2, "consume": consume})
    return out


def run_case(c, mode="sync"):
    spec = (H11_PLANS if c["proto"] == "h1" else H2_PLANS)[c["plan"]]

    def factory(rec):
        rec.cuts = list(range(c["seg"], 200000, c["seg"]))
        if c["proto"] == "h1":
            return H11Peer(plan=lambda req, idx: dict(spec, status=200, headers=[(b"X-Tok", req.token or b"?")]), alpn="http/1.1")
        return H2ServerPeer(plan=lambda req: spec)

    net = SimNet(World(default=factory))
    kw = dict(network_backend=SimBackend(net), max_connections=1, ssl_context=FakeSSLContext("origin"))
    if c["proto"] == "h2":
        kw.update(http1=False, http2=True)
    pool = httpcore.ConnectionPool(**kw)
    url = ("https" if c["tls"] else "http") + "://origin.test/x"
    ext = {"timeout": dict(TMO)} if c["tmo"] else {}
    ret = "ok"
    try:
        for i in range(c["nreq"]):
            body = BODIES[c["body"]]
            content = iter(list(body)) if isinstance(body, list) else body
            method = "POST" if body is not None else "GET"
            resp = pool.handle_request(httpcore.Request(method, url, headers=[(b"Host", b"origin.test"), (b"X-Tok", b"t%d" % i)] + ([(b"Transfer-Encoding", b"chunked")] if isinstance(body, list) else [(b"Content-Length", b"%d" % len(body))] if body is not None else []), content=content, extensions=dict(ext)))
            try:
                if c.get("consume") == "head":
                    pass
                elif c.get("consume") == "first":
                    next(iter(resp.iter_stream()), None)
                else:
                    for _ in resp.iter_stream():
                        pass
            finally:
                resp.close()
    except WouldHang:
        ret = "hang"
    except BaseException as e:  # noqa
        ret = "exc:" + type(e).__name__
    ops = []
    for op in net.ops:
        k = {"connect_tcp": "tcp", "connect_unix": "uds", "start_tls": "tls", "read": "read", "write": "write"}.get(op.kind)
        if k is None:
            continue
        t = op.args.get("timeout")
        ops.append({"k": k, "t": NAME.get(t, "weird")})
    return {"tmo": c["tmo"], "ops": ops, "ret": ret}, net


CFG = """SPECIFICATION TSpec
CONSTRAINT Mark
POSTCONDITION Post
CHECK_DEADLOCK FALSE
"""


def validate(traces, **kw):
    res, stats = tlc.validate_traces("MCOpTimeouts", CFG, traces, nd=1, **kw)
    return [r[0] for r in res], stats


def run_case_async(c):
    """The same case through AsyncConnectionPool on the virtual loop (one request)."""
    from .driver import AsyncRun, Call

    spec = (H11_PLANS if c["proto"] == "h1" else H2_PLANS)[c["plan"]]

    def factory(rec):
        rec.cuts = list(range(c["seg"], 200000, c["seg"]))
        if c["proto"] == "h1":
            return H11Peer(plan=lambda req, idx: dict(spec, status=200, headers=[(b"X-Tok", req.token or b"?")]), alpn="http/1.1")
        return H2ServerPeer(plan=lambda req: spec)

    kw = dict(max_connections=1)
    if c["proto"] == "h2":
        kw.update(http1=False, http2=True)
    body = BODIES[c["body"]]
    hdrs = [(b"Transfer-Encoding", b"chunked")] if isinstance(body, list) else [(b"Content-Length", b"%d" % len(body))] if body is not None else []
    url = ("https" if c["tls"] else "http") + "://origin.test/x"
    call = Call("r1", url, method="POST" if body is not None else "GET", headers=hdrs, content=body, timeout=dict(TMO) if c["tmo"] else None)
    run = AsyncRun(kw, [call], world=World(default=factory), record=False)
    try:
        run.run()
        o = run.outcome.get("r1", {})
        ret = "ok" if o.get("result") == "ok" else "exc:" + str(o.get("exc"))
        ops = []
        for op in run.net.ops:
            k = {"connect_tcp": "tcp", "connect_unix": "uds", "start_tls": "tls", "read": "read", "write": "write"}.get(op.kind)
            if k is not None:
                ops.append({"k": k, "t": NAME.get(op.args.get("timeout"), "weird")})
    finally:
        run.finish()
    return {"tmo": c["tmo"], "ops": ops, "ret": ret}


def tmo_of(i):
    """Request i configures its own four values (pairwise different across kinds AND requests)."""
    return {k: v + 20.0 * i for k, v in TMO.items()}


def run_overlap(proto, second_has_timeouts, order):
    """Two calls with DIFFERENT timeout settings whose exchanges overlap on one connection (HTTP/2:
    r1 holds its response head while r2 runs from start to end, then r1 reads its body; order =
    "r2-inside" or "interleaved") or follow each other on a kept-alive HTTP/1.1 connection.  Every
    operation is attributed to the call whose task issued it and must carry THAT call's value."""
    from .driver import AsyncRun, Call, default_decide

    spec = {"status": 200, "headers": [], "body": b"d" * 40, "frames": [10, 10, 10, 10]} if proto == "h2" else {"framing": "chunked", "body": b"y" * 40, "chunks": [10, 10, 10, 10]}

    def factory(rec):
        rec.cuts = list(range(9, 200000, 9))
        if proto == "h1":
            return H11Peer(plan=lambda req, idx: dict(spec, status=200, headers=[(b"X-Tok", req.token or b"?")]), alpn="http/1.1")
        return H2ServerPeer(plan=lambda req: spec)

    kw = dict(max_connections=1)
    if proto == "h2":
        kw.update(http1=False, http2=True)
    t1, t2 = tmo_of(1), (tmo_of(2) if second_has_timeouts else None)
    calls = [
        Call("r1", "http://origin.test/a", method="POST", headers=[(b"Content-Length", b"20")], content=[b"a" * 10, b"b" * 10], timeout=t1, gates=("read",)),
        Call("r2", "http://origin.test/b", method="POST", headers=[(b"Content-Length", b"20")], content=[b"c" * 10, b"d" * 10], timeout=t2, gates=("start",) if order == "r2-inside" else ()),
    ]
    run = AsyncRun(kw, calls, world=World(default=factory), record=False)

    def decide(r, en):
        r2done = r.outcome.get("r2", {}).get("result") is not None
        holding = r.waiting_gate.get("r1") == "read"
        out = []
        for s_ in en:
            if s_[0] == "gate" and s_[1] == "r1" and not r2done and proto == "h2":
                continue  # r1 keeps its response head until r2 is through
            if s_[0] == "gate" and s_[1] == "r2" and s_[2] == "start" and not holding and proto == "h2":
                continue  # r2 starts once r1 holds its response head
            out.append(s_)
        return default_decide(r, out)

    try:
        run.run(decide)
        ret = "ok" if all(run.outcome.get(n, {}).get("result") == "ok" for n in ("r1", "r2")) else "exc:" + str({n: run.outcome.get(n, {}).get("exc") for n in ("r1", "r2")})
        ops = []
        conf = {"r1": t1, "r2": t2}
        for op in run.net.ops:
            k = {"connect_tcp": "tcp", "connect_unix": "uds", "start_tls": "tls", "read": "read", "write": "write"}.get(op.kind)
            if k is None:
                continue
            mine = conf.get(op.task)
            v = op.args.get("timeout")
            if mine is None:
                name = "none" if v is None else "foreign"
                ops.append({"k": k, "t": name, "who": str(op.task), "cfg": False})
            else:
                back = {val: key for key, val in mine.items()}
                name = back.get(v, "none" if v is None else "foreign")
                ops.append({"k": k, "t": name, "who": str(op.task), "cfg": True})
    finally:
        run.finish()
    return {"tmo": True, "per_op": True, "ops": ops, "ret": ret}


def run_into(chk, prop, tier):
    """The exchange part of C16."""
    import copy

    tlc.sany("MCOpTimeouts.tla")
    cs = cases(tier)
    items = []
    for proto in ("h2", "h1"):
        for second in (True, False):
            for order in (("r2-inside", "interleaved") if proto == "h2" else ("sequential",)):
                items.append(({"overlap": True, "proto": proto, "plan": "overlap", "body": "parts", "second_has_timeouts": second, "order": order, "mode": "async"}, run_overlap(proto, second, order)))
    for c in cs:
        tr, _ = run_case(c, "sync")
        items.append((dict(c, mode="sync"), tr))
        if c["nreq"] == 1:
            items.append((dict(c, mode="async"), run_case_async(c)))
    verdicts, stats = validate([t for _, t in items])
    acc = [it for it, v in zip(items, verdicts) if v[0] == "ACCEPT"]
    for (c, tr), v in zip(items, verdicts):
        if v[0] != "ACCEPT":
            at = tr["ops"][v[1] - 1] if 0 < v[1] <= len(tr["ops"]) else {"ret": tr["ret"]}
            what = f"operation log rejected by OpTimeouts at operation {v[1]} of {len(tr['ops'])}: {at} (case {c})"
            chk.classify({"module": "OpTimeouts", "deviation": ["<none>"], "stimulus": [f"{c['proto']}/{c['plan']}/{c['body']}"]}, what, {"case": c, "trace": tr, "verdict": list(v)})
    # canaries
    base = next(tr for _, tr in acc if tr["tmo"] and len(tr["ops"]) > 6)
    bad = []
    t = copy.deepcopy(base)
    t["ops"][-1]["t"] = "none"
    bad.append(("last-op-without-timeout", t))
    t = copy.deepcopy(base)
    i = next(i for i, o in enumerate(t["ops"]) if o["k"] == "write")
    t["ops"][i]["t"] = "read"
    bad.append(("write-with-read-timeout", t))
    t = copy.deepcopy(base)
    t["ret"] = "exc:ReadTimeout"
    bad.append(("call-failed", t))
    res, _ = validate([x for _, x in bad], shards=1)
    can = {}
    for (name, _), v in zip(bad, res):
        can[name] = v[0]
        if v[0] == "ACCEPT":
            raise tlc.MachineryError(f"canary '{name}' was ACCEPTED: OpTimeouts does not bind")
    cov = chk.coverage
    cov["evaluations"] = len(items)
    cov["distinct_nontrivial"] = len({str(t) for _, t in items})
    cov["operations_judged"] = sum(len(t["ops"]) for _, t in items)
    cov["traces_validated_against_impl"] = len(acc)
    cov["traces_rejected"] = len(items) - len(acc)
    cov["states"] = stats.get("distinct", 0)
    cov["transitions"] = stats.get("states", 0)
    cov["canaries"] = can
    cov["rule"] = "one evaluation = one call (or two sequential calls) through the real pool with its complete operation log; every operation is judged"
    cov["checker_cmd"] = "tlc -workers 1 MCOpTimeouts.tla (TRACE_FILE=<batch>.json), sharded"
    cov["trusted_base"] = ["TLC 1.8.0", "harness/simnet.py"]
    cov["samples"] = [{"case": c, "ops": len(t["ops"])} for c, t in items[:2]]
