"""./check <Cxx> --replay <file>: re-judge a stored violation.

A replay file (written next to every VIOLATION line) holds what was executed (scenario /
case, the driver's decisions, injected stimuli, outcomes) and the encoded trace that TLC
rejected.  Replay has two stages:
  1. the stored trace is handed to TLC again with the module's trace specification (always);
  2. for pool executions recorded by the async driver from a named scenario, the REAL code in
     /repo's working tree is executed again with the stored decisions and injections, and
     the fresh trace is judged as well (so a repaired tree shows as 'no longer reproduces').
Exit 1 with a VIOLATION line if the (fresh, else stored) trace is rejected, 0 otherwise."""
from __future__ import annotations

import json

from . import tlc


def _judge(module, trace):
    """-> (verdict, matched prefix) of the stored trace under the module's trace specification."""
    if module == "Pool":
        from . import pooltrace

        return pooltrace.validate([trace])[0][0]
    if module == "ThreadCoarse":
        from .check_threads import ThreadRunner

        res, _ = tlc.validate_traces("MCThreadCoarse", ThreadRunner.COARSE_CFG, [trace], nd=2)
        (v0, l0), (v1, l1) = res[0]
        if v0 != "ACCEPT" and v1 == "ACCEPT":
            return ("REJECT-BUT:ActivateEvicted", l0)
        return res[0][0]
    if module == "Establish":
        from . import establish

        return establish.validate([trace])[0][0]
    if module == "Framing":
        from . import framing

        return framing.validate([trace])[0][0]
    if module == "ReqWire":
        from . import check_reqwire

        return check_reqwire.validate([trace])[0][0]
    if module == "UrlModel":
        from . import check_url

        return check_url.validate([trace])[0][0]
    if module == "Errors":
        from . import check_errors

        return check_errors.validate([trace])[0][0]
    if module == "H2Wire":
        from . import check_h2

        return check_h2.validate([trace])[0][0]
    if module == "OpTimeouts":
        from . import exchange

        return exchange.validate([trace])[0][0]
    if module == "SyncAsync":
        from . import check_syncasync

        return check_syncasync.validate([trace])[0][0]
    if module == "Upgrade":
        from . import check_upgrade

        res, _ = tlc.validate_traces("MCUpgradeTrace", check_upgrade.trace_cfg(), [trace], nd=1)
        return res[0][0]
    raise tlc.MachineryError(f"no trace specification registered for module {module!r}")


def _stored_trace(d):
    if "trace" in d:
        return d["trace"]
    if "observation" in d:
        return d["observation"]
    if "ops" in d and "case" in d:  # Establish
        return {k: d[k] for k in ("case", "meta", "ops", "result", "open_after") if k in d}
    raise tlc.MachineryError("the replay file holds no trace")


def _reexecute_pool(d):
    """Run the stored schedule against the real code again (async pool scenarios only)."""
    from . import pooltrace
    from .driver import scripted
    from .pool_scenarios import SCENARIOS

    sid = (d.get("scenario") or {}).get("id")
    meta = d.get("meta") or {}
    if sid not in SCENARIOS or meta.get("script") or not isinstance(meta.get("decisions"), list):
        return None
    scen = SCENARIOS[sid]
    run = scen.make()
    try:
        run.inject = {int(k): [tuple(x) for x in v] for k, v in (meta.get("inject") or {}).items()}
        run.run(scripted([tuple(x) for x in meta["decisions"]]))
        tr = pooltrace.Encoder(run, **scen.enc).encode()
        outcomes = {n: (o.get("result"), o.get("exc")) for n, o in run.outcome.items()}
    finally:
        run.finish()
    return tr, outcomes


def _reexecute_threads(d):
    """C08: run the stored thread schedule against the real sync pool again."""
    import random

    from . import pooltrace
    from .check_threads import SCEN, ThreadRunner, with_warm
    from .tsched import coarse_trace

    sid = (d.get("scenario") or {}).get("id")
    meta = d.get("meta") or {}
    if sid not in SCEN or not isinstance(meta.get("decisions"), str):
        return None
    scen = SCEN[sid]
    label = meta.get("label") or []
    names = {x["name"][-1]: x["name"] for x in scen.calls}
    stored = [names[ch] for ch in meta["decisions"] if ch in names]
    it = iter(stored)

    def choose(s, runnable):
        for n in it:
            if n in runnable:
                return n
        return runnable[0]

    preempt = None
    if label and label[0] == "lines":
        rng = random.Random(label[2])
        p = label[1]
        # (the same generator drives the thread choice and the line pre-emption, as in the check)
        choose = with_warm(scen, lambda sc, r, rng=rng: rng.choice(r))
        preempt = lambda sc, rng=rng, p=p: rng.random() < p
        run = scen.make(choose, preempt)
    else:
        run = scen.make(choose, None)
    try:
        run.run()
        outcomes = {n: (o.get("result"), o.get("exc")) for n, o in run.outcome.items()}
        tr = coarse_trace(run) if preempt is not None else pooltrace.Encoder(run, **scen.enc).encode()
    finally:
        run.finish()
    if preempt is None:
        r = ThreadRunner.__new__(ThreadRunner)
        tr = r.cut_after_race(tr)[0]
    return tr, outcomes


def replay(prop, path):
    with open(path) as f:
        d = json.load(f)
    module = (d.get("signature") or {}).get("module")
    if module is None:
        raise tlc.MachineryError("the replay file names no specification module")
    print(f"replay of {path}")
    print(f"  recorded: {d.get('what', '')[:400]}")
    stored = _stored_trace(d)
    v = _judge(module, stored)
    print(f"  stored trace under {module}: {v[0]} (matched prefix {v[1]})")
    verdict = v[0]
    if module == "Pool":
        try:
            again = _reexecute_pool(d)
        except Exception as e:  # the stored decisions name operations that this tree does not perform
            print(f"  re-execution against /repo diverged from the stored schedule ({type(e).__name__}: {e}); the stored trace decides")
            again = None
        if again is not None:
            tr, outcomes = again
            v2 = _judge("Pool", tr)
            same = tr == stored
            print(f"  re-executed against /repo: outcomes {outcomes}; trace {'identical to' if same else 'differs from'} the stored one; {v2[0]} (matched prefix {v2[1]})")
            verdict = v2[0]
        elif isinstance((d.get("meta") or {}).get("decisions"), str):
            try:
                again = _reexecute_threads(d)
            except Exception as e:
                print(f"  re-execution of the thread schedule failed ({type(e).__name__}: {e}); the stored trace decides")
                again = None
            if again is not None:
                tr, outcomes = again
                v2 = _judge("Pool", tr)
                print(f"  re-executed the thread schedule against /repo: outcomes {outcomes}; trace {'identical to' if tr == stored else 'differs from'} the stored one; {v2[0]} (matched prefix {v2[1]})")
                verdict = v2[0]
        else:
            print("  (no re-execution: not a scenario with a stored decision list)")
    if module == "Establish" and "case" in d and "meta" in d:
        from . import establish

        try:
            m = d["meta"]
            tr = establish.record(d["case"], m.get("outcomes", []), m.get("refuse") or None, m.get("mode", "sync"))
            v2 = _judge("Establish", tr)
            print(f"  re-executed the case against /repo ({m.get('mode')}): result {tr['result']}; log {'identical to' if tr['ops'] == d.get('ops') else 'differs from'} the stored one; {v2[0]} (matched prefix {v2[1]})")
            verdict = v2[0]
        except Exception as e:
            print(f"  re-execution failed ({type(e).__name__}: {e}); the stored log decides")
    if module == "ThreadCoarse":
        try:
            again = _reexecute_threads(d)
        except Exception as e:
            print(f"  re-execution of the thread schedule failed ({type(e).__name__}: {e}); the stored trace decides")
            again = None
        if again is not None:
            tr, outcomes = again
            v2 = _judge("ThreadCoarse", tr)
            print(f"  re-executed the line-grain schedule against /repo: outcomes {outcomes}; trace {'identical to' if tr == stored else 'differs from'} the stored one; {v2[0]} (matched prefix {v2[1]})")
            verdict = v2[0]
    if verdict.startswith("REJECT-BUT:"):
        from .checklib import Findings

        dev = verdict.split(":", 1)[1]
        f, mine = Findings().match(prop, {"module": "Pool", "deviation": [dev], "stimulus": (d.get("meta") or {}).get("stimuli", [])})
        if f is not None and mine:
            print(f"KNOWN-FINDING: property={prop} {f['id']}: the execution is a behaviour of the specification with deviation {dev}")
            return 0
        verdict = "REJECT"
    if verdict != "ACCEPT":
        print(f"VIOLATION property={prop} replay={path}")
        return 1
    print("  no longer rejected")
    return 0
