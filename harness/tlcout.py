"""Parse TLC's textual output: summary figures, the verdict, and counterexample behaviours
(printed as per-state diffs)."""
from __future__ import annotations

import re
import sys

_STATE = re.compile(r"^State (\d+): <?(.*?)>?$")
_SUM = re.compile(r"(\d+) states generated, (\d+) distinct states found, (\d+) states left on queue")


def parse(text):
    res = {"errors": [], "states": None, "distinct": None, "behaviour": [], "ok": False, "depth": None}
    cur = None
    for line in text.splitlines():
        if line.startswith("Error:"):
            res["errors"].append(line[6:].strip())
        m = _STATE.match(line)
        if m:
            act = m.group(2)
            act = re.sub(r" line \d+, col \d+ to line \d+, col \d+ of module \w+", "", act)
            cur = {"n": int(m.group(1)), "action": act, "vars": {}}
            res["behaviour"].append(cur)
            continue
        if cur is not None and line.startswith("/\\ "):
            k, _, v = line[3:].partition(" = ")
            cur["vars"][k.strip()] = v.strip()
            cur["_last"] = k.strip()
            continue
        if cur is not None and line and not line.startswith("/\\") and "_last" in cur and line.startswith(" "):
            cur["vars"][cur["_last"]] += " " + line.strip()
            continue
        m = _SUM.search(line)
        if m:
            res["states"] = int(m.group(1))
            res["distinct"] = int(m.group(2))
            res["left"] = int(m.group(3))
            cur = None
        m = re.search(r"The depth of the complete state graph search is (\d+)", line)
        if m:
            res["depth"] = int(m.group(1))
        if "Model checking completed. No error has been found." in line:
            res["ok"] = True
    return res


def show(res, out=sys.stdout):
    for e in res["errors"]:
        print("ERROR:", e, file=out)
    prev = {}
    for st in res["behaviour"]:
        print(f"-- {st['n']}: {st['action']}", file=out)
        for k, v in st["vars"].items():
            if prev.get(k) != v:
                print(f"     {k} = {v}", file=out)
        prev = dict(st["vars"])
    print(f"states={res['states']} distinct={res['distinct']} ok={res['ok']}", file=out)


if __name__ == "__main__":
    show(parse(sys.stdin.read()))
