"""C17 with spec/Upgrade.tla: TLC model-checks the hand-over specification (conservation,
max_bytes bound) for every tail length, lead, cut set and read sequence within the bounds; the
real HTTP/1.1 connection is driven through 101 / CONNECT-2xx responses with exactly those
segmentations and read sequences, and TLC replays every recorded read in lock step."""
from __future__ import annotations

import itertools
import random

import httpcore

from . import tlc
from .checklib import Check, seed
from .driver import AsyncRun, Call
from .peers import H11Peer
from .simnet import SimBackend, SimNet, World, WouldHang

BIG = 100000


def head_and_tail(kind, n):
    tail = bytes(range(1, n + 1))
    if kind == "101":
        head = b"HTTP/1.1 101 Switching Protocols\r\nConnection: upgrade\r\nUpgrade: custom\r\n\r\n"
    elif kind == "connect200":
        head = b"HTTP/1.1 200 Connection established\r\n\r\n"
    else:
        head = b"HTTP/1.1 204 No Content\r\nX-Proxy: y\r\n\r\n"
    return head, tail


def make_world(kind, n, lead, cuts, headcuts):
    head, tail = head_and_tail(kind, n)

    def plan(req, idx):
        return {"raw": head + tail, "upgrade": True}

    def factory(rec):
        p = H11Peer(plan=plan)
        absolute = sorted(set([h for h in headcuts if 0 < h < len(head)] + [len(head) + lead] + [len(head) + c for c in cuts if c > lead]))
        rec.cuts = absolute
        return p

    return World(default=factory)


def request_for(kind):
    if kind == "101":
        return "GET", "http://origin.test/chat", [(b"Host", b"origin.test"), (b"Connection", b"upgrade"), (b"Upgrade", b"custom")]
    return "CONNECT", httpcore.URL(scheme=b"http", host=b"origin.test", port=80, target=b"target.test:443"), [(b"Host", b"target.test:443")]


def run_sync(kind, n, lead, cuts, headcuts, reads, prebody=False):
    net = SimNet(make_world(kind, n, lead, cuts, headcuts))
    pool = httpcore.ConnectionPool(network_backend=SimBackend(net), max_connections=2)
    method, url, headers = request_for(kind)
    log = []
    out = {"reads": log, "idle_after": False, "write_ok": False, "error": ""}
    try:
        resp = pool.handle_request(httpcore.Request(method, url, headers=headers))
        out["status"] = resp.status
        if prebody:
            resp.read()  # the (empty) body of the 101 / 2xx, read to its end while the response is still open
        ns = resp.extensions["network_stream"]
        for m in reads:
            try:
                got = ns.read(m)
            except WouldHang:
                break
            log.append({"m": m, "got": list(got)})
        before = sum(len(w[0]) for w in net.streams[0].written)
        ns.write(b"\x00caller-data\xff")
        w = b"".join(x[0] for x in net.streams[0].written)
        out["write_ok"] = w.endswith(b"\x00caller-data\xff") and len(w) == before + 13
        resp.close()
        out["idle_after"] = any(c.is_idle() or c.is_available() for c in pool.connections)
        out["conns"] = [c.info() for c in pool.connections]
    except BaseException as e:  # noqa
        out["error"] = type(e).__name__ + ": " + str(e)[:80]
    return out


def run_async(kind, n, lead, cuts, headcuts, reads, prebody=False, concurrent=False):
    """The async twin: the same scenario inside a caller task on the virtual loop."""
    import asyncio

    from .simnet import AsyncSimBackend
    from .vloop import VLoop

    loop = VLoop()
    loop.enter()
    net = SimNet(make_world(kind, n, lead, cuts, headcuts), current_task=lambda: "r1")
    pool = httpcore.AsyncConnectionPool(network_backend=AsyncSimBackend(net), max_connections=2)
    method, url, headers = request_for(kind)
    log = []
    out = {"reads": log, "idle_after": False, "write_ok": False, "error": ""}

    async def main():
        try:
            resp = await pool.handle_async_request(httpcore.Request(method, url, headers=headers))
            out["status"] = resp.status
            if prebody:
                await resp.aread()
            ns = resp.extensions["network_stream"]
            for m in reads:
                if sum(len(r["got"]) for r in log) >= n:
                    break
                got = await ns.read(m)
                log.append({"m": m, "got": list(got)})
            if concurrent:
                # another task of the caller is parked in read() on the handed-over stream (the peer is
                # silent until it is written to): the write below must still go straight through
                async def reader():
                    try:
                        await ns.read(5)
                    except BaseException:  # noqa
                        pass

                rt = loop.create_task(reader(), name="r1")
                out["reader"] = rt
                for _ in range(3):
                    await asyncio.sleep(0)
            before = sum(len(w[0]) for w in net.streams[0].written)
            await ns.write(b"\x00caller-data\xff")
            w = b"".join(x[0] for x in net.streams[0].written)
            out["write_ok"] = w.endswith(b"\x00caller-data\xff") and len(w) == before + 13
            await resp.aclose()
            out["idle_after"] = any(c.is_idle() or c.is_available() for c in pool.connections)
        except BaseException as e:  # noqa
            out["error"] = type(e).__name__ + ": " + str(e)[:80]

    t = loop.create_task(main())
    for _ in range(20000):
        while loop.step() is not False:
            pass
        if t.done():
            break
        ready = [op for op in net.pending if op.fut is not None and not op.fut.done() and net.ready(op)]
        if concurrent:
            # the parked read stays pending (the peer has nothing to say before it is written to)
            ready = [op for op in ready if not (op.kind == "read" and out.get("reader") is not None and sum(len(r["got"]) for r in log) >= n)]
        if not ready:
            break
        op = ready[0]
        res = net.resolve(op)
        if res[0] == "ok":
            op.fut.set_result(res[1])
        else:
            op.fut.set_exception(res[1])
    rt_ = out.pop("reader", None)
    if rt_ is not None and not rt_.done():
        rt_.cancel()
        while loop.step() is not False:
            pass
    if not t.done():
        out["error"] = out["error"] or "hang: the caller did not get through (blocked although the network had nothing pending for it)"
        t.cancel()
        while loop.step() is not False:
            pass
    loop.shutdown()
    return out


def cases(tier, rng):
    T = 4 if tier == "quick" else 6
    mbs = [1, 2, 3, BIG]
    maxreads = 3 if tier == "quick" else 4
    for kind in ("101", "connect200", "connect204"):
        for n in range(0, T + 1):
            for lead in range(0, n + 1):
                cutsets = [set(s) for k in range(0, n) for s in itertools.combinations(range(1, n), k)] or [set()]
                for cuts in cutsets:
                    if tier == "quick" and len(cuts) > 2:
                        continue
                    seqs = list(itertools.product(mbs, repeat=maxreads))
                    if tier == "quick":
                        seqs = rng.sample(seqs, min(6, len(seqs)))
                    elif len(seqs) > 40:
                        seqs = rng.sample(seqs, 40)
                    for reads in seqs:
                        for headcuts in ([], [10, 17]):
                            if headcuts and rng.random() < 0.5:
                                continue
                            yield kind, n, lead, sorted(cuts), headcuts, list(reads)


def trace_cfg():
    return "SPECIFICATION TSpec\nCONSTANTS\n T = 8\n MaxBytes <- MB\n MaxReads = 99\n Deviations <- NoDev\nCONSTRAINT Mark\nPOSTCONDITION Post\nCHECK_DEADLOCK FALSE\n"


def mc_cfg(T, maxreads, dev="NoDev"):
    return f"SPECIFICATION Spec\nCONSTANTS\n T = {T}\n MaxBytes <- MB\n MaxReads = {maxreads}\n Deviations <- {dev}\nINVARIANT Conservation\nINVARIANT Bounded\nINVARIANT Progressing\n"


def run(prop, tier):
    chk = Check(prop, tier, "model_checking")
    rng = random.Random(seed())
    tlc.sany("MCUpgrade.tla")
    tlc.sany("MCUpgradeTrace.tla")
    T, mr = (5, 4) if tier == "quick" else (6, 5)
    res = tlc.model_check("MCUpgrade", mc_cfg(T, mr), tag="mcU")
    if not res["ok"]:
        raise tlc.MachineryError("Upgrade violates its own property:\n" + "\n".join(res["errors"][:4]))
    vac = tlc.model_check("MCUpgrade", mc_cfg(4, 3, "DevDrop"), tag="vacU")
    if not any("Conservation" in e for e in vac["errors"]):
        raise tlc.MachineryError("vacuity guard: deviation DropRestOfLeading does not violate Conservation")
    chk.coverage["states"] = res["distinct"]
    chk.coverage["transitions"] = res["states"]
    chk.coverage["model_runs"] = [{"T": T, "MaxReads": mr, "distinct": res["distinct"], "generated": res["states"]}]
    chk.coverage["vacuity_guards"] = [{"deviation": "DropRestOfLeading", "expected": "Conservation", "found": True}]
    traces = []
    metas = []
    evals = 0
    seen = set()
    for idx, (kind, n, lead, cuts, headcuts, reads) in enumerate(cases(tier, rng)):
        mode = "sync" if idx % 2 == 0 else "async"
        # variants of the caller: it reads the (empty) body first; a second task of it is parked in read()
        variant = {}
        if idx % 5 == 3:
            variant = {"prebody": True}
        elif idx % 5 == 4 and mode == "async":
            variant = {"concurrent": True}
        out = (run_sync if mode == "sync" else run_async)(kind, n, lead, cuts, headcuts, reads, **variant)
        evals += 1
        tr = {"n": n, "lead": lead, "cuts": cuts, "reads": out["reads"], "idle_after": bool(out["idle_after"]), "write_ok": bool(out["write_ok"]) and not out["error"]}
        key = repr((kind, tr, sorted(variant)))
        if key in seen:
            continue
        seen.add(key)
        traces.append(tr)
        metas.append({"kind": kind, "mode": mode, "headcuts": headcuts, "asked": reads, "error": out["error"], "status": out.get("status"), "variant": sorted(variant)})
    res2, stats = tlc.validate_traces("MCUpgradeTrace", trace_cfg(), traces, nd=1)
    verdicts = [r[0] for r in res2]
    rejected = [(t, m, v) for t, m, v in zip(traces, metas, verdicts) if v[0] != "ACCEPT"]
    accepted = [t for t, v in zip(traces, verdicts) if v[0] == "ACCEPT"]
    # canaries
    import copy

    base = next(t for t in accepted if len(t["reads"]) >= 2 and t["reads"][0]["got"])
    c1 = copy.deepcopy(base)
    c1["reads"][0]["got"] = c1["reads"][0]["got"][:-1]
    c2 = copy.deepcopy(base)
    c2["idle_after"] = True
    c3 = copy.deepcopy(base)
    c3["reads"][1]["got"] = [9] + c3["reads"][1]["got"]
    cres, _ = tlc.validate_traces("MCUpgradeTrace", trace_cfg(), [c1, c2, c3], nd=1)
    can = {}
    for name, v in zip(["byte-lost", "idle-after", "byte-inserted"], cres):
        can[name] = v[0][0]
        if v[0][0] == "ACCEPT":
            raise tlc.MachineryError(f"canary '{name}' was ACCEPTED: UpgradeTrace does not bind")
    for t, m, v in rejected:
        what = f"hand-over trace rejected by UpgradeTrace at read {v[1]} of {len(t['reads'])}: {m['kind']} n={t['n']} lead={t['lead']} cuts={t['cuts']} headcuts={m['headcuts']} asked={m['asked']} {m['mode']} error={m['error']!r}"
        chk.classify({"module": "Upgrade", "deviation": ["<none>"], "stimulus": [m["kind"]]}, what, {"trace": t, "meta": m, "verdict": list(v)})
    cov = chk.coverage
    cov["evaluations"] = evals
    cov["distinct_nontrivial"] = sum(1 for t in traces if t["n"] > 0 and t["reads"])
    cov["rule"] = "one evaluation = one 101 / CONNECT-2xx exchange on the real connection (sync or async twin) with a chosen tail length, lead, cut set, head segmentation and max_bytes sequence; non-trivial = non-empty tail and at least one read"
    cov["traces_validated_against_impl"] = len(accepted)
    cov["traces_rejected"] = len(rejected)
    cov["trace_states"] = stats.get("distinct", 0)
    cov["canaries"] = can
    cov["exhaustive"] = False
    cov["samples"] = [dict(t, **m) for t, m in list(zip(traces, metas))[:2] + list(zip(traces, metas))[-2:]]
    cov["checker_cmd"] = "tlc -workers 1 -config <generated> MCUpgradeTrace.tla (TRACE_FILE=<batch>.json), sharded"
    cov["trusted_base"] = ["TLC 1.8.0", "harness/simnet.py (segmentation by cut points)", "harness/check_upgrade.py drivers"]
    chk.assumptions += [
        "the tunnel proxy's own CONNECT is covered by the direct CONNECT cases (the same upgrade stream class); TLS inside the tunnel is not simulated at byte level",
        "tail <= 6 bytes, <= 4 reads, max_bytes in {1,2,3,large}; cut sets exhaustive in the thorough tier, read sequences sampled (seeded)",
    ]
    return chk.finish()
