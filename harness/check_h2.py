"""C12 / C13 with spec/H2Conn.tla (design model: semaphore, shared reader, flow control) and
spec/H2Wire.tla (+ H2WireTrace: the wire-level obligations).  TLC model-checks H2Conn (safety,
deadlock freedom, liveness; the named deviations must break it); the real pool talks to a
driver-controlled HTTP/2 server under many frame interleavings and TLC replays every recorded
wire log against H2Wire."""
from __future__ import annotations

import copy
import random

from . import explore, tlc
from .checklib import Check, seed
from .driver import Call
from .h2run import H2Run, encode, h2_decide

MC = """SPECIFICATION {spec}
CONSTANTS
 Req <- {req}
 Body <- {body}
 Limits <- L123
 MaxSettings = {ms}
 InitWin = {iw}
 MaxGrant = {mg}
 Resets = {rs}
 Shrinks = {sh}
 Deviations <- {dev}
INVARIANT TypeOK
INVARIANT PermitAccounting
INVARIANT FlowSafe
INVARIANT UploadExact
"""


def mc(spec="Spec", req="R3", body="B000", ms=2, iw=2, mg=0, rs=1, dev="NoDev", props=(), sh=0):
    t = MC.format(spec=spec, req=req, body=body, ms=ms, iw=iw, mg=mg, rs=rs, dev=dev, sh=sh)
    for p in props:
        t += f"PROPERTY {p}\n"
    return t


TRACE_CFG = "SPECIFICATION TSpec\nCONSTANTS\n MaxStream = {ms}\nCONSTRAINT Mark\nPOSTCONDITION Post\nCHECK_DEADLOCK FALSE\n"


def validate(traces):
    """Traces with many streams (long histories on one connection) are validated in a batch of
    their own with a larger MaxStream: the constant sizes every per-stream function of the state."""
    small, large = [], []
    for i, t in enumerate(traces):
        top = max([e.get("sid", 0) for e in t["ev"]] + [0])
        (small if top <= 41 else large).append((i, t, top))
    out = [None] * len(traces)
    stats = {}
    for group, ms in ((small, 41), (large, max([x[2] for x in large] + [41]) + 2)):
        if not group:
            continue
        res, st = tlc.validate_traces("MCH2WireTrace", TRACE_CFG.format(ms=ms), [t for _, t, _ in group], nd=1)
        for (i, _, _), r in zip(group, res):
            out[i] = r[0]
        for k, v in st.items():
            stats[k] = stats.get(k, 0) + v if isinstance(v, (int, float)) else v
    return out, stats


def gets(n, consume=None):
    return [dict(name=f"r{i}", url=f"http://a.test/{i}", consume=(consume[i - 1] if consume else "all")) for i in range(1, n + 1)]


def uploads(sizes):
    out = []
    for i, n in enumerate(sizes, 1):
        d = dict(name=f"r{i}", url=f"http://a.test/u{i}", method="POST" if n is not None else "GET")
        if n is not None:
            d["headers"] = [(b"Content-Length", b"%d" % n)]
            d["content"] = bytes((j * 7 + i) % 251 for j in range(n))
        out.append(d)
    return out


def scenarios(prop, tier):
    import h2.settings

    SC = h2.settings.SettingCodes
    quick = tier == "quick"
    S = []
    if prop == "C01":
        S.append(("get3", gets(3), dict(), {}))
        S.append(("get4-init2", gets(4), dict(init_settings={SC.MAX_CONCURRENT_STREAMS: 2}), {}))
        S.append(("get3-abandon", gets(3, consume=["none", ("chunks", 1), "all"]), dict(), {}))
        S.append(("get3-rst3", gets(3), dict(rst=[3]), {}))
        two = [dict(name="r1", url="http://a.test/1", gates=("read",)), dict(name="r2", url="http://b.test/2", gates=("read",)), dict(name="r3", url="http://a.test/3"), dict(name="r4", url="http://b.test/4")]
        S.append(("two-origins-2x2", two, dict(), {}))
        # the server CHANGES its stream limit while several bodies are being read (what each caller gets must
        # still be its own response, in order; that callers may hang here is KF08, C12's business)
        S.append(("get3-up3-down1", gets(3), dict(settings=[{"mcs": 3}, {"mcs": 1}]), {}))
        S.append(("get4-init2-down1-up3", gets(4), dict(init_settings={SC.MAX_CONCURRENT_STREAMS: 2}, settings=[{"mcs": 1}, {"mcs": 3}]), {}))
        return S
    if prop == "C03":
        # the request side of a SHARED connection (clause reqok of RET: every complete transmission of a
        # call's request carried exactly the caller's body; a failure needs a cause the server gave)
        def chunked(i, parts, **kw):
            body = bytes((j * 5 + i) % 251 for j in range(sum(parts)))
            out, pos = [], 0
            for n in parts:
                out.append(body[pos : pos + n])
                pos += n
            # (the harness builds httpcore.Request itself: the framing header is the caller's business there)
            return dict(name=f"r{i}", url=f"http://a.test/u{i}", method="POST", content=out, headers=[(b"Transfer-Encoding", b"chunked")], **kw)

        W = dict(start_after_ack=True)
        iws = {SC.INITIAL_WINDOW_SIZE: 5}
        # a body given as an ITERATOR of several chunks, the window exhausted in the middle of it, the
        # server's response head arriving while the upload is still going on (RFC 9113 8.1)
        S.append(("warm+iterup552-iws5-early-head", [dict(name="r1", url="http://a.test/1"), chunked(2, [5, 5, 2])], dict(init_settings=iws, window=5, wu_unit=3, early_head=True, **W), {}))
        S.append(("warm+iterup3333-iws5", [dict(name="r1", url="http://a.test/1"), chunked(2, [3, 3, 3, 3])], dict(init_settings=iws, window=5, wu_unit=4, **W), {}))
        S.append(("warm+2iterup-iws4-early-head", [dict(name="r1", url="http://a.test/1"), chunked(2, [4, 0, 4, 1]), chunked(3, [2, 7])], dict(init_settings={SC.INITIAL_WINDOW_SIZE: 4}, window=4, wu_unit=3, early_head=True, **W), {}))
        # a request whose head HTTP/2 cannot encode, started while other streams of the connection have
        # frames under way: it alone fails, and what the others send still arrives complete
        bad = dict(url="http://a.test/bad", headers=[(b"X-Fresh", b"v"), (b"TE", b"gzip")])
        S.append(("iterup+iterup+illegal", [chunked(1, [4, 4, 4]), chunked(2, [4, 4, 4]), dict(name="r3", **bad)], dict(), {}))
        S.append(("get+illegal+iterup", [dict(name="r1", url="http://a.test/1"), dict(name="r2", **bad), chunked(3, [4, 4])], dict(), {}))
        # ... a GATED body (the caller's iterator yields when the driver says so): the next chunk is handed
        # over while another stream's write is in progress, then the illegal request comes and goes
        S.append(("warm+gatedup+get+illegal", [dict(name="r1", url="http://a.test/1"), dict(name="r2", url="http://a.test/u2", method="POST", headers=[(b"Transfer-Encoding", b"chunked")], content=("gated", [b"AAAA", b"BBBB", b"CCCC"])), dict(name="r3", url="http://a.test/3"), dict(name="r4", **bad)], dict(**W), {}))
        S.append(("warm+illegal+get+iterup", [dict(name="r1", url="http://a.test/1"), dict(name="r2", **bad), dict(name="r3", url="http://a.test/3"), chunked(4, [6, 6])], dict(**W), {}))
        return S
    if prop == "C14":
        for last in (0, 1, 3, 5, 7):
            S.append((f"get3-goaway{last}", gets(3), dict(goaway=last), {}))
        S.append(("get4-init2-goaway1", gets(4), dict(init_settings={SC.MAX_CONCURRENT_STREAMS: 2}, goaway=1), {}))
        S.append(("get3-rst1", gets(3), dict(rst=[1]), {}))
        up = [dict(name="r1", url="http://a.test/1"), dict(name="r2", url="http://a.test/u2", method="POST", headers=[(b"Content-Length", b"8")], content=("gated", [b"abcd", b"efgh"]))]
        S.append(("get+gated-upload-goaway3", up, dict(goaway=3), {}))
        S.append(("get+gated-upload-goaway1", up, dict(goaway=1), {}))
        return S
    if prop == "C12":
        S.append(("get3-up3-down1", gets(3), dict(settings=[{"mcs": 3}, {"mcs": 1}]), {}))
        S.append(("get4-init1", gets(4), dict(init_settings={SC.MAX_CONCURRENT_STREAMS: 1}), {}))
        S.append(("get4-init2-up4", gets(4), dict(init_settings={SC.MAX_CONCURRENT_STREAMS: 2}, settings=[{"mcs": 4}]), {}))
        S.append(("get3-rst3", gets(3), dict(rst=[3]), {}))
        S.append(("get3-abandon", gets(3, consume=["none", ("chunks", 1), "all"]), dict(), {}))
        S.append(("get3-down2", gets(3), dict(settings=[{"mcs": 2}]), {}))
        S.append(("get2-zero-then-100", gets(2), dict(settings=[{"mcs": 0}, {"mcs": 100}]), {}))
        # a later SETTINGS frame that does NOT mention MAX_CONCURRENT_STREAMS leaves the advertised limit alone
        S.append(("get6-init2-then-iws-only", gets(6), dict(init_settings={SC.MAX_CONCURRENT_STREAMS: 2}, settings=[{"iws": 70000}]), {}))
        S.append(("get5-down2-then-mfs-only", gets(5), dict(settings=[{"mcs": 2}, {"mfs": 20000}]), {}))
        # the pool at its connection limit with a request for ANOTHER origin queued: a connection that has a
        # request waiting for a stream slot is in use - it must not be reclaimed as idle under that request
        other = [dict(name="r1", url="http://a.test/1"), dict(name="r2", url="http://a.test/2"), dict(name="r3", url="http://b.test/3")]
        S.append(("get2-init1+other-origin-max1", other, dict(init_settings={SC.MAX_CONCURRENT_STREAMS: 1}), {"pool": dict(max_connections=1)}))
        S.append(("get3-init1+other-origin-max1", other[:2] + [dict(name="r3", url="http://a.test/3"), dict(name="r4", url="http://b.test/4")], dict(init_settings={SC.MAX_CONCURRENT_STREAMS: 1}), {"pool": dict(max_connections=1)}))
        if not quick:
            S.append(("get5-init2-down1-up3", gets(5), dict(init_settings={SC.MAX_CONCURRENT_STREAMS: 2}, settings=[{"mcs": 1}, {"mcs": 3}]), {}))
            S.append(("get4-rst1-rst5", gets(4), dict(rst=[1, 5]), {}))
    else:
        S.append(("up12-iws5", uploads([12]), dict(init_settings={SC.INITIAL_WINDOW_SIZE: 5}, window=5, wu_unit=3), {}))
        S.append(("up12+get-iws4", uploads([12, None]), dict(init_settings={SC.INITIAL_WINDOW_SIZE: 4}, window=4, wu_unit=1), {}))
        S.append(("longpoll+up12-iws4", uploads([None, 12]), dict(init_settings={SC.INITIAL_WINDOW_SIZE: 4}, window=4, wu_unit=4, hold_until_uploads=2), {}))
        S.append(("up9+up9-iws3", uploads([9, 9]), dict(init_settings={SC.INITIAL_WINDOW_SIZE: 3}, window=3, wu_unit=2), {}))
        # the response head arrives while the upload is blocked on its window, the credit afterwards
        S.append(("up12-iws5-early-head", uploads([12]), dict(init_settings={SC.INITIAL_WINDOW_SIZE: 5}, window=5, wu_unit=3, early_head=True), {}))
        S.append(("up9+up9-iws3-early-head", uploads([9, 9]), dict(init_settings={SC.INITIAL_WINDOW_SIZE: 3}, window=3, wu_unit=2, early_head=True), {}))
        # uploads on a WARM connection: a first GET makes the client read and acknowledge the server's
        # SETTINGS, so the small windows bind it from the first DATA frame on
        W = dict(start_after_ack=True)
        S.append(("warm+up12-iws5", uploads([None, 12]), dict(init_settings={SC.INITIAL_WINDOW_SIZE: 5}, window=5, wu_unit=3, **W), {}))
        S.append(("warm+up12-iws5-early-head", uploads([None, 12]), dict(init_settings={SC.INITIAL_WINDOW_SIZE: 5}, window=5, wu_unit=3, early_head=True, **W), {}))
        S.append(("warm+up9+up9-iws3", uploads([None, 9, 9]), dict(init_settings={SC.INITIAL_WINDOW_SIZE: 3}, window=3, wu_unit=2, **W), {}))
        S.append(("warm+up9+up9-iws3-early-head", uploads([None, 9, 9]), dict(init_settings={SC.INITIAL_WINDOW_SIZE: 3}, window=3, wu_unit=2, early_head=True, **W), {}))
        S.append(("warm+up20-iws7-then-12-then-2", uploads([None, 20]), dict(init_settings={SC.INITIAL_WINDOW_SIZE: 7}, settings=[{"iws": 12}, {"iws": 2}], window=7, wu_unit=5, **W), {}))
        # a body given as an ITERATOR whose chunks are handed over one by one (gated), with something else
        # moving the windows BETWEEN two chunks: a SETTINGS frame that lowers INITIAL_WINDOW_SIZE, read by
        # another stream's reader; a second upload using up what is left of the stream windows' credit
        def gated(i, parts):
            body = bytes((j * 3 + i) % 251 for j in range(sum(parts)))
            out, pos = [], 0
            for n in parts:
                out.append(body[pos : pos + n])
                pos += n
            return dict(name=f"r{i}", url=f"http://a.test/u{i}", method="POST", headers=[(b"Content-Length", b"%d" % len(body))], content=("gated", out))

        S.append(("warm+gatedup343-iws7-then-2+get", [dict(name="r1", url="http://a.test/1"), gated(2, [3, 4, 3]), dict(name="r3", url="http://a.test/3")], dict(init_settings={SC.INITIAL_WINDOW_SIZE: 7}, settings=[{"iws": 2}], window=7, wu_unit=5, **W), {}))
        S.append(("warm+gatedup22+gatedup33-iws5-then-3", [dict(name="r1", url="http://a.test/1"), gated(2, [2, 2]), gated(3, [3, 3])], dict(init_settings={SC.INITIAL_WINDOW_SIZE: 5}, settings=[{"iws": 3}], window=5, wu_unit=4, **W), {}))
        S.append(("up0-up1", uploads([0, 1]), dict(), {}))
        S.append(("up65535", uploads([65535]), dict(), {}))
        S.append(("up65536", uploads([65536]), dict(window=65535, wu_unit=70000), {}))
        S.append(("up3x65535+get", uploads([3 * 65535, None]), dict(window=65535, wu_unit=65535), {}))
        S.append(("up20-mfs-iws", uploads([20]), dict(init_settings={SC.INITIAL_WINDOW_SIZE: 7}, settings=[{"iws": 12}, {"iws": 2}], window=7, wu_unit=5), {}))
        # 67,000 DATA frames of 4 bytes + 255 padding: 17.4 MB of flow-controlled bytes - more than the
        # 16 MiB + 65,535 of credit the client grants up front, so the credit it RETURNS (for padding
        # too) is what keeps a server that respects the windows going
        S.append(("download-padded-17MiB-of-credit", [dict(name="r1", url="http://a.test/big1"), dict(name="r2", url="http://a.test/2")], dict(pad=255), {"big": 67000 * 4, "frame": 4}))
        # a long HISTORY on one connection: 1,100 responses of ONE 16,384-byte DATA frame each, carrying
        # END_STREAM - 17.2 MiB in "last frames" only, so that credit withheld for the frame that ends a
        # stream (or per response) exhausts the connection window although no single transfer is large
        S.append(("get1100-one-frame-each-17MiB", [dict(name=f"r{i}", url=f"http://a.test/big{i}") for i in range(1, 1101)], dict(), {"big": 16384, "frame": 16384}))
        # responses ABANDONED after their first chunk: what the server still sends into them uses up the
        # connection's receive window; 18 x 1 MiB is more than the client grants up front
        S.append(("abandon18x1MiB-then-download", [dict(name=f"r{i}", url=f"http://a.test/big{i}", consume=("chunks", 1)) for i in range(1, 19)] + [dict(name="r19", url="http://a.test/big19")], dict(), {"big": 1024 * 1024, "frame": 16384}))
        if not quick:
            S.append(("download-17MiB", [dict(name="r1", url="http://a.test/big1"), dict(name="r2", url="http://a.test/2")], dict(), {"big": 17 * 1024 * 1024 + 123}))
        else:
            S.append(("download-200KiB", [dict(name="r1", url="http://a.test/big1"), dict(name="r2", url="http://a.test/2")], dict(), {"big": 200 * 1024 + 7}))
    return S


def make_factory(calls, srv, extra):
    def make():
        run = H2Run([Call(**c) for c in calls], pool_kwargs=extra.get("pool"), srv=copy.deepcopy(srv), body_frames=(6, 6) if not extra.get("big") else (extra.get("frame", 16384),))
        if extra.get("big"):
            n = extra["big"]
            run.big_body = (bytes(range(256)) * (n // 256 + 1))[:n]
        return run

    return make


def stimulus_class(run):
    """Code-independent class of what the server did (part of a finding's signature)."""
    out = set()
    open_now = set()
    acked_limit = None
    for e in run.wire:
        if e["e"] == "C_HEADERS":
            open_now.add(e["sid"])
        elif e["e"] in ("S_DATA", "S_HEADERS") and e.get("end"):
            open_now.discard(e["sid"])
        elif e["e"] == "S_RST":
            open_now.discard(e["sid"])
            out.add("rst")
        elif e["e"] == "S_SETTINGS" and e["mcs"] >= 0:
            if e["mcs"] == 0:
                out.add("settings/zero")
            elif acked_limit is not None and e["mcs"] < acked_limit:
                out.add("settings/lowered")
            acked_limit = e["mcs"]
        elif e["e"] == "S_GOAWAY":
            out.add("goaway")
        elif e["e"] == "S_WU":
            out.add("window-update")
    # responses the CALLER let go of before their end: how many flow-controlled bytes the server still had to
    # send into them (the signature of KF14 needs more than the 16 MiB + 65,535 the client grants up front)
    left = 0
    for n, call in run.calls.items():
        if call.consume != "all" and run.big_body and "/big" in str(call.url):
            left += len(run.big_body)
    if left:
        out.add("abandon/over-16MiB" if left > (1 << 24) else "abandon")
    return sorted(out) or ["plain"]


def run_into(chk, prop, tier):
    rng = random.Random(seed())
    quick = tier == "quick"
    tlc.sany("MCH2Conn.tla")
    tlc.sany("MCH2WireTrace.tla")
    runs = []
    if prop in ("C01", "C14", "C03"):
        insts = [("safety: 3 GETs, 1 SETTINGS change, 1 reset", mc(ms=1, props=["StreamCap"]))]
        devs = []
    elif prop == "C12":
        insts = [("safety: 3 GETs, 2 SETTINGS changes, 1 reset", mc(props=["StreamCap"])), ("liveness: 3 GETs under a fair server", mc(spec="FairSpec", ms=1, rs=0, props=["NoWedge"]))]
        devs = [("DevSettings", mc(dev="DevSettings"), "Deadlock")]
    else:
        insts = [("safety+liveness: upload 2 units + GET, window 1", mc(spec="FairSpec", req="R2", body="B20", ms=1, iw=1, mg=8, rs=0, props=["NoWedge"])), ("two uploads sharing the connection window", mc(spec="FairSpec", req="R2", body="B22", ms=0, iw=1, mg=12, rs=0, props=["NoWedge"]))]
        insts.append(("INITIAL_WINDOW_SIZE lowered in mid-upload (negative window): upload 2 units + GET", mc(spec="FairSpec", req="R2", body="B20", ms=0, iw=1, mg=8, rs=0, sh=1, props=["NoWedge", "FlowRespected"])))
        devs = [("DevFlow", mc(spec="FairSpec", req="R2", body="B20", ms=1, iw=1, mg=8, rs=0, dev="DevFlow", props=["NoWedge"]), ""),
                ("DevFlowZero", mc(spec="FairSpec", req="R2", body="B20", ms=0, iw=1, mg=8, rs=0, sh=1, dev="DevFlowZero", props=["NoWedge"]), "")]
    states = trans = 0
    for name, cfg in insts:
        r = tlc.model_check("MCH2Conn", cfg, tag="mcH2")
        runs.append({"instance": name, "distinct": r["distinct"], "generated": r["states"], "ok": r["ok"]})
        if not r["ok"]:
            raise tlc.MachineryError(f"H2Conn violates its own property in instance '{name}':\n" + "\n".join(r["errors"][:4]))
        states += r["distinct"]
        trans += r["states"]
    vac = []
    for dev, cfg, expect in devs:
        r = tlc.model_check("MCH2Conn", cfg, tag="vacH2")
        hit = (not r["ok"]) and any(expect in e for e in r["errors"])
        vac.append({"deviation": dev, "found": hit, "errors": r["errors"][:1]})
        if not hit:
            raise tlc.MachineryError(f"vacuity guard: deviation {dev} breaks nothing in H2Conn")
    chk.coverage["states"] = states
    chk.coverage["transitions"] = trans
    chk.coverage["model_runs"] = runs
    chk.coverage["vacuity_guards"] = vac
    items = []
    evals = 0
    for sid_, calls, srv, extra in scenarios(prop, tier):
        make = make_factory(calls, srv, extra)
        heavy = bool(extra.get("big")) or any(len(c.get("content", b"") or b"") > 1000 for c in calls)
        run = make()
        if heavy:
            run.MAX_STEPS = 5000000
            run.record = False  # (only the wire log is judged; per-quantum observations would be ~1 KB each)
        run.run(h2_decide, max_choices=1000000 if heavy else 100000)
        if run.loop.steps >= run.MAX_STEPS and heavy:
            raise tlc.MachineryError(f"scenario {sid_}: the execution was cut off by the harness's step limit (nothing may be concluded from a truncated run)")
        items.append((sid_, ("base",), run))
        if heavy:
            continue
        for label, run in explore.dfs_orders(make, depth=10 if quick else 14, max_runs=25 if quick else 300, kinds=("op", "srv", "start", "gate")):
            items.append((sid_, label, run))
        for label, run in explore.hold_variants(make, decide0=h2_decide, max_ops=40 if quick else 200):
            items.append((sid_, label, run))
        # server BURSTS: k frames are sent back to back (they arrive in one segment), then the client gets one
        # network operation, and so on - for k = 1..4, with the arrivals / gates first or last
        for k in (1, 2, 3, 4):
            for first in ("client", "server"):
                run = make()
                state = {"n": 0}

                def decide(r, en, k=k, first=first, state=state):
                    en = [x for x in en if x[0] != "tick"] or en
                    if not en:
                        return None
                    srv = [x for x in en if x[0] == "srv"]
                    cli = [x for x in en if x[0] in ("start", "gate")]
                    ops = [x for x in en if x[0] == "op"]
                    if first == "client" and cli:
                        return cli[0]
                    if srv and state["n"] < k:
                        state["n"] += 1
                        return srv[0]
                    state["n"] = 0
                    if ops:
                        return ops[-1] if k % 2 == 0 else ops[0]
                    return (cli or srv or en)[0]

                run.run(decide, max_choices=3000)
                items.append((sid_, ("burst", k, first), run))
        # ... and bursts that START with a SETTINGS change (it travels ahead of DATA frames in one segment),
        # the change withheld until the j-th burst
        if srv.get("settings"):
            for k in (2, 3):
                for j in range(0, 10):
                    run = make()
                    state = {"n": 0, "burst": 0}

                    def decide(r, en, k=k, j=j, state=state):
                        en = [x for x in en if x[0] != "tick"] or en
                        if not en:
                            return None
                        cli = [x for x in en if x[0] in ("start", "gate")]
                        if cli:
                            return cli[0]
                        sets = [x for x in en if x[0] == "srv" and x[2] == "settings"]
                        nxt = [x for x in en if x[0] == "srv" and x[2] != "settings"]
                        ops = [x for x in en if x[0] == "op"]
                        if state["n"] < k and (nxt or (sets and state["burst"] >= j)):
                            state["n"] += 1
                            if sets and state["burst"] >= j and state["n"] == 1:
                                return sets[0]
                            if nxt:
                                return nxt[(state["burst"] + state["n"]) % len(nxt)]
                        state["n"] = 0
                        state["burst"] += 1
                        if ops:
                            return ops[0]
                        return (sets or nxt or en)[0]

                    run.run(decide, max_choices=3000)
                    items.append((sid_, ("burst-settings", k, j), run))
        for i in range(15 if quick else 150):
            s = rng.randrange(1 << 30)
            r2 = random.Random(s)
            run = make()

            def decide(r, en, r2=r2):
                en = [x for x in en if x[0] != "tick"] or en
                return r2.choice(en) if en else None

            run.run(decide, max_choices=3000)
            items.append((sid_, ("random", s), run))
    traces, metas = [], []
    seen = set()
    for sid_, label, run in items:
        evals += 1
        tr = encode(run)
        meta = {"scenario": sid_, "label": list(label), "decisions": [list(d) for d in run.decisions][:400], "stimuli": stimulus_class(run), "outcomes": {n: (o.get("result"), o.get("exc")) for n, o in run.outcome.items()}, "live": run.live()}
        run.finish()
        key = repr(tr)
        if key in seen:
            continue
        seen.add(key)
        traces.append(tr)
        metas.append(meta)
    verdicts, stats = validate(traces)
    rejected = [(t, m, v) for t, m, v in zip(traces, metas, verdicts) if v[0] != "ACCEPT"]
    accepted = [t for t, v in zip(traces, verdicts) if v[0] == "ACCEPT"]
    base = next(t for t in accepted if sum(1 for e in t["ev"] if e["e"] == "C_HEADERS") >= 2 and any(e["e"] == "RET" and e["out"] == "ok" and e["sid"] > 0 for e in t["ev"]) and any(e["e"] == "C_ACK" for e in t["ev"]))
    c1 = copy.deepcopy(base)
    i = next(j for j, e in enumerate(c1["ev"]) if e["e"] == "C_ACK")
    hs = [j for j, e in enumerate(c1["ev"]) if e["e"] == "C_HEADERS"]
    # two streams opened before the server's SETTINGS are acknowledged
    ev = c1["ev"]
    moved = ev.pop(hs[1])
    ev.insert(min(i, hs[0] + 1), moved)
    c2 = copy.deepcopy(base)
    for e in c2["ev"]:
        if e["e"] == "RET" and e["out"] == "ok" and e["sid"] > 0:
            e["own"] = False
            break
    c3 = copy.deepcopy(base)
    for e in c3["ev"]:
        if e["e"] == "RET" and e["out"] == "ok" and e["sid"] > 0:
            e["blen"] -= 1
            break
    cres, _ = validate([c1, c2, c3])
    can = {}
    for name, v in zip(["second-stream-before-ack", "foreign-response", "body-short"], cres):
        can[name] = v[0]
        if v[0] == "ACCEPT":
            raise tlc.MachineryError(f"canary '{name}' was ACCEPTED: H2WireTrace does not bind")
    for t, m, v in rejected:
        at = t["ev"][v[1] - 1] if v[1] - 1 < len(t["ev"]) else {}
        clause = at.get("e", "?")
        if clause == "RET":
            # what kind of RET was refused: a caller that RETURNED a response which is not its own (isolation) is
            # a different matter from a caller that failed / was refused
            clause += "/ok" if str(at.get("out", "")) in ("ok", "abandoned") else "/exc"
        what = f"wire log rejected by H2WireTrace at event {v[1]} of {len(t['ev'])} ({at}); scenario {m['scenario']} {m['label']}; stimuli {m['stimuli']}; outcomes {m['outcomes']}; live {m['live']}"
        chk.classify({"module": "H2Wire", "deviation": ["clause:" + clause], "stimulus": m["stimuli"]}, what, {"trace": t, "meta": m, "verdict": list(v)})
    cov = chk.coverage
    cov["evaluations"] = evals
    cov["distinct_nontrivial"] = sum(1 for t in traces if sum(1 for e in t["ev"] if e["e"].startswith("C_")) >= 3)
    cov["rule"] = "one evaluation = one execution of the real pool against the driver-controlled HTTP/2 server (default order, DFS over client-operation / server-frame orders, seeded random orders); distinct = distinct wire logs; non-trivial = at least three client frames"
    cov["traces_validated_against_impl"] = len(accepted)
    cov["traces_rejected"] = len(rejected)
    cov["trace_states"] = stats.get("distinct", 0)
    cov["canaries"] = can
    cov["samples"] = [dict(m, events=len(t["ev"])) for t, m in list(zip(traces, metas))[:2] + list(zip(traces, metas))[-1:]]
    for s in cov["samples"]:
        s.pop("decisions", None)
    cov["checker_cmd"] = "tlc -workers 1 -config <generated> MCH2WireTrace.tla (TRACE_FILE=<batch>.json), sharded"
    cov["trusted_base"] = ["TLC 1.8.0", "h2 server-side connection used to PRODUCE well-formed frames; hyperframe+hpack decoder reading the client's frames", "virtual loop + simulated network"]
    chk.assumptions += [
        "H2Conn (the design model with semaphore / read lock / windows) is model-checked but bound to the code only through the wire-level obligations of H2Wire, not step by step",
        "the server sends well-formed frames; frame payload sizes are small except in the named large-transfer scenarios",
    ]


def run(prop, tier):
    chk = Check(prop, tier, "model_checking")
    run_into(chk, prop, tier)
    return chk.finish()
