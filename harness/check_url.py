"""C19 with spec/UrlModel.tla: TLC checks the origin / Host-header laws over the shape space
and evaluates Expected on every shape; every shape is concretised (str, bytes and explicit
components), parsed by the real httpcore.URL, sent once through a pool (to read the Host header
off the wire with the independent parser) and TLC judges each observation (UrlTrace)."""
from __future__ import annotations

import itertools
import random

import httpcore

from . import tlc
from .checklib import Check, seed
from .peers import H11Peer
from .simnet import FakeSSLContext, SimBackend, SimNet, World

HOST_IN = {"name": "example.com", "mixed": "ExAmple.COM", "ipv4": "127.0.0.1", "ipv6": "[::1]", "ipv6mixed": "[2001:DB8::A]"}
PATH_IN = {"empty": "", "root": "/", "segs": "/a/b", "lastparam": "/a/b;p=1", "innerparam": "/a;p=1/b", "dots": "/a/./../b", "pct": "/a%20b/%7E"}
QUERY_IN = {"none": "", "empty": "?", "plain": "?q=1", "semi": "?q=1;r=2", "qmark": "?q=1?x"}
TOKENS = ["/a%20b", "/%7E", "/..", "/.", "/a", "/b", ";p=1", "q=1;r=2", "q=1?x", "q=1", "?", "/"]
DEFAULT = {"http": 80, "ws": 80, "https": 443, "wss": 443}


def shapes(tier, rng):
    dims = dict(
        scheme=["http", "https", "ws", "wss"],
        upper=[False, True],
        user=["none", "user", "userpw"],
        hostk=["name", "mixed", "ipv4", "ipv6", "ipv6mixed"],
        port=["none", "default", "otherdefault", "custom", "zero"],
        path=list(PATH_IN),
        query=list(QUERY_IN),
        frag=[False, True],
        form=["str", "bytes"],
    )
    keys = list(dims)
    allp = list(itertools.product(*[dims[k] for k in keys]))
    if tier == "quick":
        allp = rng.sample(allp, 3000)
        # make sure every value of every dimension is present with every host kind
        for hk in dims["hostk"]:
            for p in dims["path"]:
                for q in dims["query"]:
                    allp.append(("http", False, "none", hk, "custom", p, q, False, "str"))
    for vals in allp:
        yield dict(zip(keys, vals))


def port_of(s):
    return {"none": None, "default": DEFAULT[s["scheme"]], "otherdefault": 443 if DEFAULT[s["scheme"]] == 80 else 80, "custom": 8080, "zero": 0}[s["port"]]


def concretise(s):
    sc = s["scheme"].upper() if s["upper"] else s["scheme"]
    user = {"none": "", "user": "bob@", "userpw": "bob:pw@"}[s["user"]]
    p = port_of(s)
    url = f"{sc}://{user}{HOST_IN[s['hostk']]}{'' if p is None else ':%d' % p}{PATH_IN[s['path']]}{QUERY_IN[s['query']]}{'#frag' if s['frag'] else ''}"
    return url.encode() if s["form"] == "bytes" else url


def tokenise(b):
    out = []
    text = b.decode("latin1")
    while text:
        for t in TOKENS:
            if text.startswith(t):
                out.append(t)
                text = text[len(t):]
                break
        else:
            return ["?:" + b.decode("latin1")]
    return out


def host_tokens(v):
    text = v.decode("latin1")
    out = []
    host, port = text, None
    if text.startswith("["):
        end = text.find("]")
        if end > 0:
            out += ["[", text[1:end], "]"]
            rest = text[end + 1 :]
        else:
            return ["?:" + text]
    else:
        # a bare IPv6 literal has several colons: keep it as one unparseable token
        if text.count(":") > 1:
            return ["?:" + text]
        host, _, rest = text.partition(":")
        out.append(host)
        rest = (":" + rest) if rest else ""
    if rest:
        if rest.startswith(":") and rest[1:].isdigit():
            out += [":", int(rest[1:])]
        else:
            return ["?:" + text]
    return out


def observe(s):
    raw = concretise(s)
    o = {}
    try:
        u = httpcore.URL(raw)
        o["scheme"] = u.scheme.decode("latin1")
        o["host"] = u.host.decode("latin1")
        o["port"] = -1 if u.port is None else u.port
        o["target"] = tokenise(u.target)
        org = u.origin
        o["oscheme"] = org.scheme.decode("latin1")
        o["ohost"] = org.host.decode("latin1")
        o["oport"] = org.port
        try:
            u2 = httpcore.URL(bytes(u))
            o["roundtrip"] = "equal" if u2 == u else "differs"
        except Exception as e:
            o["roundtrip"] = "raises:" + type(e).__name__
    except Exception as e:  # noqa
        return {"scheme": "raises:" + type(e).__name__, "host": "", "port": -1, "target": [], "oscheme": "", "ohost": "", "oport": 0, "roundtrip": "", "hosthdr": []}
    # the Host header as synthesised by the request API, read off the wire
    net = SimNet(World(default=lambda rec: H11Peer()))
    pool = httpcore.ConnectionPool(network_backend=SimBackend(net), ssl_context=FakeSSLContext())
    try:
        pool.request("GET", raw)
        peer = net.streams[0].peer
        o["hosthdr"] = host_tokens(peer.requests[0].header(b"host", b""))
        o["wire_target"] = tokenise(peer.requests[0].target)
    except Exception as e:  # noqa
        o["hosthdr"] = ["raises:" + type(e).__name__]
        o["wire_target"] = []
    return o


def cfg(accept="NoAccept"):
    return f"SPECIFICATION TSpec\nCONSTANTS\n Accept <- {accept}\nCONSTRAINT Mark\nPOSTCONDITION Post\nCHECK_DEADLOCK FALSE\n"


def validate(traces, accept="NoAccept"):
    res, stats = tlc.validate_traces("MCUrlTrace", cfg(accept), traces, nd=1)
    return [r[0] for r in res], stats


def run(prop, tier):
    chk = Check(prop, tier, "model_checking")
    rng = random.Random(seed())
    tlc.sany("MCUrl.tla")
    tlc.sany("MCUrlTrace.tla")
    res = tlc.model_check("MCUrl", "SPECIFICATION Spec\nINVARIANT WellFormed\n", tag="mcUrl")
    if not res["ok"]:
        raise tlc.MachineryError("UrlModel laws fail (a defect of the spec):\n" + "\n".join(res["errors"][:4]) + res["raw"][-1500:])
    chk.coverage["states"] = res["distinct"]
    chk.coverage["transitions"] = res["states"]
    chk.coverage["model_runs"] = [{"module": "MCUrl", "shapes": res["distinct"], "laws": ["OriginLaw", "ExplicitDefaultSharesOrigin", "HostHeaderPortIffNonDefault", "TargetIgnoresFragUser"]}]
    traces, metas = [], []
    seen = set()
    for s in shapes(tier, rng):
        key = tuple(sorted(s.items()))
        if key in seen:
            continue
        seen.add(key)
        o = observe(s)
        traces.append({"shape": s, "obs": {k: o[k] for k in ("scheme", "host", "port", "target", "oscheme", "ohost", "oport", "roundtrip", "hosthdr")}})
        metas.append({"url": repr(concretise(s)), "wire_target": o.get("wire_target")})
    # other inputs of the statement, judged with the same module (one trace each): non-ASCII text,
    # header order and duplicates - as fixed shape "extras"
    extras = extra_observations()
    verdicts, stats = validate(traces)
    rejected = [(t, m, v) for t, m, v in zip(traces, metas, verdicts) if v[0] != "ACCEPT"]
    accepted = [t for t, v in zip(traces, verdicts) if v[0] == "ACCEPT"]
    import copy

    base = next(t for t in accepted if len(t["obs"]["target"]) >= 2)
    c1 = copy.deepcopy(base)
    c1["obs"]["target"] = c1["obs"]["target"][:-1]
    c2 = copy.deepcopy(base)
    c2["obs"]["oport"] += 1
    c3 = copy.deepcopy(base)
    c3["obs"]["hosthdr"] = c3["obs"]["hosthdr"] + [":", 81]
    cres, _ = validate([c1, c2, c3])
    can = {}
    for name, v in zip(["target-token-dropped", "origin-port-off", "host-header-port-added"], cres):
        can[name] = v[0]
        if v[0] == "ACCEPT":
            raise tlc.MachineryError(f"canary '{name}' was ACCEPTED: UrlTrace does not bind")
    if rejected:
        d1, _ = validate([t for t, _, _ in rejected], "AcceptParams")
        d2, _ = validate([t for t, _, _ in rejected], "AcceptIpv6")
        d3, _ = validate([t for t, _, _ in rejected], "AcceptBoth")
        for (t, m, v), a, b, c in zip(rejected, d1, d2, d3):
            devs = []
            if a[0] == "ACCEPT":
                devs = ["LastSegmentParamsDropped"]
            elif b[0] == "ACCEPT":
                devs = ["Ipv6HostUnbracketed"]
            elif c[0] == "ACCEPT":
                devs = ["LastSegmentParamsDropped", "Ipv6HostUnbracketed"]
            s = t["shape"]
            stim = [f"path/{s['path']}", f"host/{s['hostk']}"]
            what = f"URL semantics rejected by UrlTrace: {m['url']} -> {t['obs']} (explained by {devs or 'nothing'})"
            replay = {"trace": t, "meta": m, "deviations": devs}
            if devs and all(chk.findings.match(prop, {"module": "UrlModel", "deviation": [d], "stimulus": stim})[0] is not None for d in devs):
                for d in devs:
                    chk.classify({"module": "UrlModel", "deviation": [d], "stimulus": stim}, what, replay)
            else:
                chk.classify({"module": "UrlModel", "deviation": devs or ["<none>"], "stimulus": stim}, what, replay)
    for name, ok, detail in extras:
        if not ok:
            chk.violation(f"C19 extra clause '{name}' failed: {detail}", {"clause": name, "detail": detail})
    cov = chk.coverage
    cov["evaluations"] = len(traces) + len(extras)
    cov["distinct_nontrivial"] = len(traces)
    cov["rule"] = "one evaluation = one URL shape concretised, parsed by httpcore.URL, serialised and re-parsed, and sent once through a pool to read the Host header off the wire; every shape is distinct; plus the fixed extra clauses (ASCII-only text, header order/duplicates, explicit components)"
    cov["traces_validated_against_impl"] = len(accepted)
    cov["traces_rejected"] = len(rejected)
    cov["canaries"] = can
    cov["extras"] = [{"clause": n, "ok": ok} for n, ok, _ in extras]
    cov["exhaustive"] = tier == "thorough"
    cov["samples"] = [dict(m, shape=t["shape"], obs=t["obs"]) for t, m in list(zip(traces, metas))[:2] + list(zip(traces, metas))[-1:]]
    cov["checker_cmd"] = "tlc -workers 1 -config <generated> MCUrlTrace.tla (TRACE_FILE=<batch>.json), sharded"
    cov["trusted_base"] = ["TLC 1.8.0", "tokeniser of observed targets / Host headers (harness/check_url.py)", "independent HTTP/1.1 request parser (harness/peers.py)"]
    chk.assumptions += ["components are drawn from fixed token tables (one representative per kind); characters inside a token are not varied"]
    return chk.finish()


def extra_observations():
    """Clauses of C19 about non-URL inputs; each is (name, ok, detail).  Their expected values are
    stated in DESIGN.md 5 (C19); they are simple enough to be judged without a model."""
    out = []
    # text arguments: ASCII only
    for name, fn in [
        ("url str non-ascii rejected", lambda: httpcore.URL("http://exämple.com/")),
        ("method str non-ascii rejected", lambda: httpcore.Request("GËT", "http://a/")),
        ("header value non-ascii rejected", lambda: httpcore.Request("GET", "http://a/", headers={"x": "é"})),
        ("components non-ascii rejected", lambda: httpcore.URL(scheme="http", host="é", target="/")),
    ]:
        try:
            fn()
            out.append((name, False, "accepted"))
        except TypeError:
            out.append((name, True, ""))
        except Exception as e:  # noqa
            out.append((name, False, "raised " + type(e).__name__))
    # bytes with high bits are accepted as they are
    try:
        r = httpcore.Request("GET", "http://a/", headers=[(b"x", b"\xe9")])
        out.append(("bytes header kept", r.headers == [(b"x", b"\xe9")], repr(r.headers)))
    except Exception as e:  # noqa
        out.append(("bytes header kept", False, type(e).__name__))
    # header lists keep order and duplicates; mappings keep insertion order
    hs = [("B", "1"), ("a", "2"), ("B", "3"), (b"c", b"4")]
    r = httpcore.Request("GET", "http://a/", headers=hs)
    out.append(("header sequence order+duplicates", r.headers == [(b"B", b"1"), (b"a", b"2"), (b"B", b"3"), (b"c", b"4")], repr(r.headers)))
    r = httpcore.Request("GET", "http://a/", headers={"Z": "1", "a": "2"})
    out.append(("header mapping order", r.headers == [(b"Z", b"1"), (b"a", b"2")], repr(r.headers)))
    # explicit components are taken as they are
    u = httpcore.URL(scheme=b"https", host=b"www.example.com", port=None, target=b"*")
    out.append(("components verbatim", (u.scheme, u.host, u.port, u.target) == (b"https", b"www.example.com", None, b"*"), repr(u)))
    out.append(("components origin default port", u.origin.port == 443, str(u.origin)))
    return out
