"""Checks decided with spec/Establish.tla (+ EstablishTrace): C10, C11, C16 (operation
timeouts), C20.  TLC model-checks the pipeline specification over the case matrix; the real
pool (sync and async twin) is run once per (case, outcome script) on the simulated network and
TLC replays every recorded operation log in lock step."""
from __future__ import annotations

import itertools
import random

from . import establish as E
from . import tlc
from .checklib import Check, seed

INV = {
    "C20": ["RetryBound", "BackoffSequence", "RetryOnlyConnect", "LastErrorRaised", "NoRetryAfterEstablished"],
    "C10": ["TlsIffSecure", "SniAlpn", "ProtoChoice", "Routing"],
    "C16": ["TimeoutTag", "NoTimeoutMeansUnlimited"],
    "C06": ["FailureClosesStream"],
    "C11": ["ConnectFirst", "NoHttpBeforeSocksSuccess", "RefusalStops", "ForwardAbsoluteForm", "SecretsOnProxyHopOnly", "CallerDataNotInConnect", "SocksAsConfigured", "MergedNotRepeated"],
}
VACUITY = {
    "C20": [("DevRetryAny", "RetryOnlyConnect")],
    "C10": [("DevTunnelTls", "TlsIffSecure"), ("DevSocksTls", "TlsIffSecure"), ("DevTunnelSni", "SniAlpn")],
    "C16": [("DevSocksTmo", "TimeoutTag")],
    "C11": [],
    "C06": [("DevSocksLeak", "FailureClosesStream")],
}
# (C06: no property group of its own - the lock step and the end-of-log clause "no stream is left open after
#  a failed establishment" (EstablishTrace.TEnd) are what decides)
GROUP = {"C10": "G10", "C11": "G11", "C16": "G16", "C20": "G20", "C06": "GNone"}


def mc_cfg(cases, invs, dev="NoDev"):
    t = f"SPECIFICATION Spec\nCONSTANTS\n  Cases <- {cases}\n  Deviations <- {dev}\n"
    for i in invs:
        t += f"INVARIANT {i}\n"
    return t


def case_filter(prop, tier):
    quick = tier == "quick"
    if prop == "C20":
        return lambda c: c["proxy"] == "none" and c["http1"] and not c["http2"] and not c["sniExt"] and not c["alpnH2"] and c["tmo"] and c["scheme"] in ("http", "https") and not c["body"]
    if prop == "C06":
        return lambda c: c["retries"] in (0, 1) and c["tmo"] and not c["body"] and c["phdr"] == "none" and not c["sniExt"] and (not quick or not c["uds"])
    if prop == "C10":
        return lambda c: c["retries"] == 0 and c["tmo"] and not c["body"] and c["phdr"] == "none" and (not quick or not c["uds"])
    if prop == "C16":
        return lambda c: c["retries"] in (0, 1) and not c["body"] and c["phdr"] == "none" and (not quick or (c["http1"] and not c["sniExt"] and not c["uds"]))
    if prop == "C11":
        return lambda c: c["proxy"] != "none" and c["retries"] == 0 and c["tmo"] and (not c["sniExt"] or c["phdr"] == "none") and (not quick or (c["http1"] and not c["alpnH2"]))
    raise KeyError(prop)


COVER_MAX_RETRIES = 1  # spec -> code coverage (EstablishCover) is demanded for the retry cases up to this N


def behaviours(prop, tier, c, mode, rng):
    """Outcome scripts for one case."""
    quick = tier == "quick"
    if prop == "C20":
        n = c["retries"]
        stages = 2 if c["scheme"] == "https" else 1
        # every sequence of outcomes of the successive connect-stage operations, up to N+2 of them
        alphabet = ["ok", "ConnectError", "ConnectTimeout", "OtherError"]
        # the outcomes are consumed by the successive connect-stage operations (TCP, then TLS when
        # the scheme is https); an exhausted script means "ok"
        k = 0
        maxlen = max(n + 2, stages * (n + 1)) if n <= COVER_MAX_RETRIES else n + 2
        for ln in range(0, maxlen + 1):
            for seq in itertools.product(alphabet, repeat=ln):
                if seq and seq[-1] == "ok":
                    continue  # same run as the shorter script
                seq = list(seq)
                if "OtherError" in seq:
                    # "any other kind of failure": the concrete class rotates over an httpcore class of
                    # another family, OSError subclasses and other builtins (thorough: every one of them)
                    classes = E.OTHER_CLASSES if not quick else [E.OTHER_CLASSES[k % len(E.OTHER_CLASSES)]]
                    k += 1
                    for cls in classes:
                        yield ["@connect"] + [("OtherError:" + cls) if o == "OtherError" else o for o in seq], None
                else:
                    yield ["@connect"] + seq, None
        # ... and a retriable-looking failure AFTER the connection was established
        for f in ("ConnectError", "ConnectTimeout", "ReadError"):
            yield ["post:" + f], None
            if n:
                yield ["ConnectError", "post:" + f], None
        if n <= COVER_MAX_RETRIES:
            # for the cases on which spec -> code coverage is demanded (EstablishCover): the product of
            # EVERY outcome sequence that ends in an established connection with every later failure
            for ln in range(0, stages * (n + 1) + 1):
                for seq in itertools.product(["ok", "ConnectError", "ConnectTimeout"], repeat=ln):
                    for f in ("ConnectError", "ConnectTimeout", "ReadError"):
                        yield ["@connect"] + list(seq) + ["post:" + f], None
        return
    base = E.record(c, [], None, mode)
    est = [o for o in base["ops"] if o["op"] in ("tcp", "uds", "tls", "read", "write")]
    yield [], None
    kinds = {
        "tcp": ["ConnectError", "ConnectTimeout", "OtherError"],
        "uds": ["ConnectError", "ConnectTimeout", "OtherError"],
        "tls": ["ConnectError", "ConnectTimeout", "OtherError"],
        "read": ["ReadError"],
    }
    for k, o in enumerate(est):
        fl = kinds.get(o["op"], [])
        if o["op"] == "write" and o.get("what") != "connect-req":
            fl = ["WriteError"]
        if quick and fl:
            fl = fl[:1]
        for f in fl:
            yield ["ok"] * k + [f], None
    if c["proxy"] in ("http", "https") and c["scheme"] != "http":
        yield [], "connect"
        if prop == "C11":
            # "any other reply": redirects, authentication demands, server errors
            statuses = [301, 302, 305, 307, 400, 407, 500, 503]
            if quick:
                i = rng.randrange(4)
                statuses = [statuses[i], statuses[4 + rng.randrange(4)]]
            for st in statuses:
                yield [], f"connect:{st}"
    if c["proxy"] == "socks5":
        yield [], "socks-greet"
        yield [], "socks-greet:unoffered"  # the proxy picks a method that was not offered
        yield [], "socks-connect"
        if c["auth"]:
            yield [], "socks-auth"


def run(prop, tier):
    chk = Check(prop, tier, "model_checking")
    run_into(chk, prop, tier)
    return chk.finish()


def run_into(chk, prop, tier):
    rng = random.Random(seed())
    tlc.sany("MCEstablish.tla")
    tlc.sany("MCEstablishTrace.tla")
    # 1. the model
    cases_name = {"C20": "RetryCases"}.get(prop, "QuickCases" if tier == "quick" else "AllCases")
    res = tlc.model_check("MCEstablish", mc_cfg(cases_name, INV[prop]), tag="mcE")
    if not res["ok"]:
        raise tlc.MachineryError("Establish violates its own property (a defect of the spec):\n" + "\n".join(res["errors"][:5]))
    chk.coverage["states"] = res["distinct"]
    chk.coverage["transitions"] = res["states"]
    chk.coverage["model_runs"] = [{"cases": cases_name, "distinct": res["distinct"], "generated": res["states"], "invariants": INV[prop]}]
    vac = []
    for dev, expect in VACUITY[prop]:
        r = tlc.model_check("MCEstablish", mc_cfg("QuickCases" if prop != "C20" else "RetryCases", [expect], dev=dev), tag="vacE")
        hit = any(expect in e for e in r["errors"])
        vac.append({"deviation": dev, "expected": expect, "found": hit})
        if not hit:
            raise tlc.MachineryError(f"vacuity guard: deviation {dev} does not violate {expect}")
    chk.coverage["vacuity_guards"] = vac
    # 2. executions of the real code
    filt = case_filter(prop, tier)
    cases = E.all_cases(filt)
    if tier == "quick" and len(cases) > 400:
        rng.shuffle(cases)
        keep = cases[:400]
        cases = keep
    traces = []
    seen = set()
    evals = 0
    modes = ("sync", "async") if tier == "thorough" or prop in ("C20",) else ("async", "sync")
    for idx, c in enumerate(cases):
        mode = modes[idx % 2] if tier == "quick" else None
        for m in ([mode] if mode else modes):
            variants = [(c, o, r) for o, r in behaviours(prop, tier, c, m, rng)]
            if prop in ("C16", "C20") and c["tmo"] and c["retries"] >= 2:
                # the same outcome scripts with a connect timeout shorter than the back-off pauses
                variants += [(dict(c, tight=True), o, r) for _, o, r in list(variants)]
            if prop in ("C10", "C11") and not c["uds"]:
                # the same case with the caller's 'target' extension, and with an IPv6 literal as origin host
                # (not through SOCKS: the address type of the SOCKS command is not part of the abstraction)
                variants.append((dict(c, tgtExt=True), [], None))
                if c["proxy"] != "socks5":
                    variants.append((dict(c, v6=True), [], None))
                    variants.append((dict(c, v6=True, tgtExt=True), [], None))
            if prop == "C10" and m == "sync" and not c["uds"]:
                variants.append((dict(c, upperScheme=True), [], None))
            for c2, outcomes, refuse in variants:
                t = E.record(c2, outcomes, refuse, m)
                if c2.get("upperScheme"):
                    if t["result"] == "UnsupportedProtocol" and not t["ops"]:
                        chk.coverage["upper_case_scheme_refused"] = chk.coverage.get("upper_case_scheme_refused", 0) + 1
                        evals += 1
                        continue  # refused before anything was connected: nothing to route
                    t["meta"]["upperScheme"] = True
                if c2.get("tight"):
                    t["meta"]["tight_connect_timeout"] = True
                for vk in ("tgtExt", "v6"):
                    if c2.get(vk):
                        t["meta"][vk] = True
                evals += 1
                key = (tuple(sorted(c.items())), tuple((tuple(sorted(o.items(), key=str))) for o in map(lambda o: {k: (tuple(v) if isinstance(v, list) else v) for k, v in o.items()}, t["ops"])), t["result"], t["open_after"])
                if key in seen:
                    continue
                seen.add(key)
                traces.append(t)
    nsecond = 0
    if prop == "C11":
        # histories: a second request by another caller on the kept-alive connection (HTTP/1.1 hops)
        for c in cases:
            if c["http2"] and (c["alpnH2"] or not c["http1"]):
                continue
            t = E.record(dict(c, second=True), [], None, "sync")
            evals += 1
            if "second" in t:
                nsecond += 1
                traces.append(t)
        chk.coverage["second_request_histories"] = nsecond
        if not nsecond:
            raise tlc.MachineryError("no second-request history was recorded")
    # 3. TLC replays them
    verdicts, stats = E.validate(traces, groups=GROUP[prop])
    rejected = [(t, v) for t, v in zip(traces, verdicts) if v[0] != "ACCEPT"]
    accepted = [t for t, v in zip(traces, verdicts) if v[0] == "ACCEPT"]
    # 3b. SPECIFICATION -> CODE: every behaviour of Establish on the exercised cases was reproduced by the code
    if prop == "C20":
        chk.coverage["spec_to_code"] = spec_to_code([t for t in accepted if t["case"]["retries"] <= COVER_MAX_RETRIES], prop, tier, have_rejections=bool(rejected))
    # canaries
    can = canaries(accepted, GROUP[prop])
    if prop == "C11":
        import copy

        b = copy.deepcopy(next(t for t in accepted if "second" in t))
        b["second"]["carries"] = ["callerHeader"] + list(b["second"]["carries"])
        v2, _ = E.validate([b], groups=GROUP[prop])
        can["second-request-carries-first-callers-header"] = v2[0][0]
        if v2[0][0] == "ACCEPT":
            raise tlc.MachineryError("canary 'second-request-carries-first-callers-header' was ACCEPTED")
    diag = E.diagnose([t for t, _ in rejected]) if rejected else []
    for (t, v), d in zip(rejected, diag):
        devs, allv, alll, mode = d
        c = t["case"]
        kind = "direct" if c["proxy"] == "none" else ("socks" if c["proxy"] == "socks5" else ("forward" if c["scheme"] == "http" else "tunnel"))
        stim = [f"{kind}/{c['scheme']}"]
        what = f"operation log rejected by EstablishTrace at step {v[1]} of {len(t['ops'])} (case {c}, outcomes {t['meta']['outcomes']}, refuse {t['meta']['refuse']!r}, {t['meta']['mode']}); deviation(s): {devs or 'none'} [{mode}]"
        replay = {"case": c, "meta": t["meta"], "ops": t["ops"], "result": t["result"], "open_after": t["open_after"], "verdict": list(v), "diagnosis": {"deviations": devs, "mode": mode}}
        if not devs:
            chk.classify({"module": "Establish", "deviation": ["<none>"], "stimulus": stim}, what, replay)
        elif mode == "single":
            done = False
            for dname in devs:
                sig = {"module": "Establish", "deviation": [dname], "stimulus": stim}
                if chk.findings.match(prop, sig)[0] is not None:
                    chk.classify(sig, what, replay)
                    done = True
                    break
            if not done:
                chk.classify({"module": "Establish", "deviation": devs, "stimulus": stim}, what, replay)
        else:
            sigs = [{"module": "Establish", "deviation": [dname], "stimulus": stim} for dname in devs]
            if all(chk.findings.match(prop, s)[0] is not None for s in sigs):
                for s in sigs:
                    chk.classify(s, what, replay)
            else:
                chk.classify({"module": "Establish", "deviation": devs, "stimulus": stim}, what, replay)
    cov = chk.coverage
    cov["evaluations"] = evals
    cov["cases"] = len(cases)
    cov["distinct_nontrivial"] = sum(1 for t in traces if len(t["ops"]) >= 2)
    cov["rule"] = "one evaluation = one request through the real pool (sync or async twin) for one case x outcome script; distinct = distinct (case, abstract operation log, result); non-trivial = at least two operations"
    cov["traces_validated_against_impl"] = len(accepted)
    cov["traces_rejected"] = len(rejected)
    cov["trace_states"] = stats.get("distinct", 0)
    cov["canaries"] = can
    cov["exhaustive"] = tier == "thorough" or prop == "C20"
    cov["samples"] = [{"case": t["case"], "outcomes": t["meta"]["outcomes"], "refuse": t["meta"]["refuse"], "mode": t["meta"]["mode"], "ops": t["ops"], "result": t["result"]} for t in (traces[:2] + traces[-2:])]
    cov["checker_cmd"] = "tlc -workers 1 -config <generated> MCEstablishTrace.tla (TRACE_FILE=<batch>.json), sharded"
    cov["trusted_base"] = ["TLC 1.8.0", "harness/simnet.py + peers.py (simulated network, independent SOCKS/CONNECT/HTTP parsers)", "abstraction of recorded operations (harness/establish.py)"]
    chk.assumptions += [
        "hosts, markers and timeout values are distinct by construction, so an argument identifies its source",
        "one request per pool; sync and async twins both exercised",
    ]


def spec_to_code(accepted, prop, tier, have_rejections=False):
    """TLC enumerates every behaviour of Establish for the cases that were exercised; each must be among
    the accepted recorded logs (spec/EstablishCover.tla).  -> coverage record; a behaviour of the
    specification that the code never reproduced is a machinery failure (incomplete outcome scripts) -
    unless the logs were rejected anyway, in which case the violations speak for themselves."""
    import json
    import os
    import re
    import tempfile

    tlc.sany("EstablishCover.tla")
    body, seen = [], set()
    for t in accepted:
        rec = {"case": t["case"], "ops": t["ops"], "result": t["result"]}
        k = json.dumps(rec, sort_keys=True)
        if k not in seen:
            seen.add(k)
            body.append(rec)
    os.makedirs(tlc.WORK, exist_ok=True)
    fd, path = tempfile.mkstemp(prefix="cover_", suffix=".json", dir=tlc.WORK)
    try:
        with os.fdopen(fd, "w") as f:
            json.dump(body, f)
        cfg = "SPECIFICATION Spec\nCONSTANTS\n  Cases <- RecCases\n  Deviations <- NoDev\nINVARIANT Reproduced\n"
        r = tlc.model_check("EstablishCover", cfg, workers=4, tag="cover", env={"COVER_FILE": path})
    finally:
        os.unlink(path)
    if r["errors"]:
        raise tlc.MachineryError("EstablishCover failed:\n" + "\n".join(r["errors"][:3]) + r["raw"][-1500:])
    unc = re.findall(r'"UNCOVERED", "(.*)"', r["raw"])
    terminal = None
    out = {"cases": len({json.dumps(b["case"], sort_keys=True) for b in body}), "recorded_distinct_logs": len(body), "spec_states": r["distinct"], "spec_behaviours_not_reproduced": len(unc)}
    if unc and not have_rejections:
        sample = [u.encode().decode("unicode_escape")[:400] for u in unc[:3]]
        raise tlc.MachineryError(f"spec -> code: {len(unc)} behaviour(s) of Establish were never reproduced by the real code on the exercised cases (outcome scripts incomplete, or the code cannot do it), e.g. {sample}")
    return out


def canaries(accepted, group):
    import copy

    pool = [t for t in accepted if len(t["ops"]) >= 3 and t["case"]["tmo"] and t["ops"][0]["op"] == "tcp"]
    if not pool:
        raise tlc.MachineryError("no accepted operation log long enough for the canaries")
    base = pool[0]
    bad = []
    t1 = copy.deepcopy(base)
    for o in t1["ops"]:
        if o["op"] in ("tcp", "tls") and o["tmo"] != "none":
            o["tmo"] = "read" if o["tmo"] != "read" else "write"
            break
    bad.append(("timeout-swapped", t1))
    t2 = copy.deepcopy(base)
    del t2["ops"][1]
    bad.append(("operation-deleted", t2))
    t3 = copy.deepcopy(base)
    t3["result"] = "ReadError" if t3["result"] != "ReadError" else "ok"
    bad.append(("result-changed", t3))
    res, _ = E.validate([t for _, t in bad], groups=group)
    out = {}
    for (name, _), v in zip(bad, res):
        out[name] = v[0]
        if v[0] == "ACCEPT":
            raise tlc.MachineryError(f"canary '{name}' was ACCEPTED: EstablishTrace does not bind")
    return out
