from . import check_combo, check_errors, check_establish, check_h2, check_framing, check_pool, check_reqwire, check_syncasync, check_threads, check_upgrade, check_url

REGISTRY = {
    "C01": check_combo,
    "C02": check_framing,
    "C03": check_combo,
    "C04": check_pool,
    "C05": check_pool,
    "C06": check_combo,
    "C07": check_pool,
    "C08": check_threads,
    "C09": check_pool,
    "C10": check_combo,
    "C11": check_combo,
    "C12": check_h2,
    "C13": check_h2,
    "C14": check_combo,
    "C15": check_errors,
    "C16": check_combo,
    "C17": check_upgrade,
    "C18": check_syncasync,
    "C19": check_url,
    "C20": check_establish,
}
