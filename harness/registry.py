from . import check_pool

REGISTRY = {
    "C04": check_pool,
    "C05": check_pool,
    "C06": check_pool,
    "C07": check_pool,
    "C09": check_pool,
}
