"""Origin identity computed WITHOUT httpcore: the harness must not ask the code under test which
origins are 'the same' (a defect in Origin.__eq__ or in URL parsing would otherwise hide itself)."""
from __future__ import annotations

import re

DEFAULT_PORTS = {"http": 80, "https": 443, "ws": 80, "wss": 443, "socks5": 1080, "socks5h": 1080}
_RX = re.compile(r"^([A-Za-z][A-Za-z0-9+.\-]*)://(?:[^/?#@]*@)?(\[[^\]]*\]|[^:/?#]*)(?::(\d*))?")


def ind_origin(url):
    """-> (scheme, host, port) with lower-cased scheme/host, brackets stripped, default port filled in."""
    if isinstance(url, dict):  # explicit components (driver.mk_url); host may be a list of byte values
        as_text = lambda v: (bytes(v) if not isinstance(v, str) else v.encode("latin1")).decode("latin1")
        scheme = as_text(url["scheme"]).lower()
        port = url.get("port") if url.get("port") is not None else DEFAULT_PORTS.get(scheme)
        return (scheme, as_text(url["host"]).lower().strip("[]"), port)
    if hasattr(url, "scheme") and hasattr(url, "host"):  # an httpcore.URL built from explicit components
        scheme = bytes(url.scheme).decode("latin1").lower()
        host = bytes(url.host).decode("latin1").lower()
        port = url.port if url.port is not None else DEFAULT_PORTS.get(scheme)
        return (scheme, host.strip("[]"), port)
    if isinstance(url, bytes):
        url = url.decode("latin1")
    m = _RX.match(url)
    if not m:
        raise ValueError(f"not an absolute URL: {url!r}")
    scheme = m.group(1).lower()
    host = m.group(2).lower().strip("[]")
    port = int(m.group(3)) if m.group(3) else DEFAULT_PORTS.get(scheme)
    return (scheme, host, port)


def make_origin(key):
    """The httpcore.Origin object for an independent key (needed to ASK a connection
    can_handle_request(); identity is never decided by comparing these objects)."""
    import httpcore

    return httpcore.Origin(scheme=key[0].encode("latin1"), host=key[1].encode("latin1"), port=key[2])
